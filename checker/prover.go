package main

// E5 stage 2: a small linear-arithmetic guard prover over SSA integers.
//
// For an obligation at instruction I (0 <= i < len(a), 0 <= lo <= hi <= len(a),
// d != 0) it collects facts that hold whenever I executes:
//   - every conditional edge that dominates I (&&-conditions expanded),
//     translated into linear inequalities over SSA integer values and len(x)
//     terms;
//   - definitional equalities (t = a + b, t = len(x), len(x[a:b]) = b-a, …),
//     type ranges (uint8 ≤ 255, len ≥ 0), interval bounds of bit operations;
//   - postconditions of library functions (strings.Index ≥ 0 ⇒ idx+len(sub) ≤ len(s),
//     HasPrefix ⇒ len(s) ≥ len(p), Split/SplitN ⇒ len ≥ 1, …);
//   - monotone induction variables (φ = init, φ ± const) and range-loop indices;
//   - equality of repeated loads of one memory location when nothing in
//     between can write it (go/ssa performs no CSE).
// and refutes facts ∧ ¬goal by Fourier–Motzkin elimination with integer
// tightening.  Sound over mathematical integers (overflow is not modelled);
// incomplete by design: what it cannot prove goes to stage 3 or is a violation.

import (
	"fmt"
	"go/constant"
	"go/token"
	"go/types"
	"math/big"
	"sort"
	"strings"

	"golang.org/x/tools/go/ssa"
)

type linExpr struct {
	c int64
	t map[string]int64
}

func newLin(c int64) linExpr { return linExpr{c: c, t: map[string]int64{}} }

func (a linExpr) add(b linExpr, k int64) linExpr {
	out := newLin(a.c + k*b.c)
	for n, v := range a.t {
		out.t[n] = v
	}
	for n, v := range b.t {
		out.t[n] += k * v
		if out.t[n] == 0 {
			delete(out.t, n)
		}
	}
	return out
}

func (a linExpr) scale(k int64) linExpr { return newLin(0).add(a, k) }

func (a linExpr) String() string {
	var ks []string
	for k := range a.t {
		ks = append(ks, k)
	}
	sort.Strings(ks)
	s := ""
	for _, k := range ks {
		s += fmt.Sprintf("%+d·%s ", a.t[k], k)
	}
	return s + fmt.Sprintf("%+d", a.c)
}

type prover struct {
	fn          *ssa.Function
	atoms       map[string]string    // atom key -> readable
	loads       map[string]*ssa.UnOp // canonical load per key
	facts       []linExpr            // each: expr >= 0
	seenV       map[ssa.Value]bool
	notes       []string
	fset        *token.FileSet
	depth       int
	bounds      map[string]bool
	subst       map[ssa.Value]ssa.Value // parameter → actual argument (caller-side discharge)
	at          ssa.Instruction         // the site the facts are collected for (nil: none in particular)
	growDepth   int
	pendingNE   [][2]linExpr
	idxPending  []ssa.Value
	inRefresh   bool
	phiDepth    int
	inWrapCheck bool
}

// refresh turns pending disequalities into inequalities once one side is known to bound the other.
func (p *prover) refresh() {
	if p.inRefresh {
		return
	}
	p.inRefresh = true
	defer func() { p.inRefresh = false }()
	one := newLin(1)
	for changed := true; changed; {
		changed = false
		var rest [][2]linExpr
		for _, ne := range p.pendingNE {
			a, b := ne[0], ne[1]
			switch {
			case p.proveRaw(a.add(b, -1)):
				p.ge(a.add(one, -1), b)
				changed = true
			case p.proveRaw(b.add(a, -1)):
				p.ge(b.add(one, -1), a)
				changed = true
			default:
				rest = append(rest, ne)
			}
		}
		p.pendingNE = rest
		if changed {
			vals := p.idxPending
			for _, v := range vals {
				p.indexPost(v)
			}
		}
	}
}

func newProver(fn *ssa.Function) *prover {
	return &prover{fn: fn, atoms: map[string]string{}, loads: map[string]*ssa.UnOp{}, seenV: map[ssa.Value]bool{}, bounds: map[string]bool{}}
}

func (p *prover) fact(e linExpr) { p.facts = append(p.facts, e) }

// ge: a >= b
func (p *prover) ge(a, b linExpr) { p.fact(a.add(b, -1)) }

// ---------------------------------------------------------------------------
// terms

func isIntType(t types.Type) bool {
	b, ok := t.Underlying().(*types.Basic)
	return ok && b.Info()&types.IsInteger != 0
}

func typeRange(t types.Type) (lo, hi *int64) {
	b, ok := t.Underlying().(*types.Basic)
	if !ok {
		return nil, nil
	}
	z := int64(0)
	mk := func(v int64) *int64 { return &v }
	switch b.Kind() {
	case types.Uint8:
		return &z, mk(255)
	case types.Uint16:
		return &z, mk(65535)
	case types.Uint32:
		return &z, mk(4294967295)
	case types.Uint, types.Uint64, types.Uintptr:
		return &z, nil
	case types.Int8:
		return mk(-128), mk(127)
	case types.Int16:
		return mk(-32768), mk(32767)
	}
	return nil, nil
}

// pureCallee: calls that cannot write memory reachable from the analysed function's objects.
// modPure: a module function that writes no memory other than its own locals and calls only pure functions.
var modPureMemo = map[*ssa.Function]int{}

func modPure(f *ssa.Function, depth int) bool {
	if f == nil || len(f.Blocks) == 0 || depth > 4 {
		return false
	}
	switch modPureMemo[f] {
	case 1:
		return true
	case 2:
		return false
	case 3:
		return true // recursion: assume pure while checking
	}
	modPureMemo[f] = 3
	pure := true
	allInstrs(f, func(in ssa.Instruction) {
		if !pure {
			return
		}
		switch t := in.(type) {
		case *ssa.Store:
			if _, local := rootOf(t.Addr).(*ssa.Alloc); !local {
				pure = false
			}
		case *ssa.MapUpdate, *ssa.Send, *ssa.Go, *ssa.Defer, *ssa.Panic:
			pure = false
		case *ssa.Call:
			if pureCallee(&t.Call) {
				return
			}
			g := t.Call.StaticCallee()
			if g == nil || !isModFunc(g) || !modPure(g, depth+1) {
				pure = false
			}
		}
	})
	if pure {
		modPureMemo[f] = 1
	} else {
		modPureMemo[f] = 2
	}
	return pure
}

func pureCallee(c *ssa.CallCommon) bool {
	if f := c.StaticCallee(); f != nil && isModFunc(f) && modPureMemo[f] != 3 && modPure(f, 0) {
		return true
	}
	return pureCalleeBasic(c)
}

func pureCalleeBasic(c *ssa.CallCommon) bool {
	if _, ok := c.Value.(*ssa.Builtin); ok {
		return true
	}
	n := calleeName(c)
	for _, p := range []string{"strings.", "bytes.", "strconv.", "path.", "path/filepath.", "unicode", "errors.", "fmt.Sprintf", "fmt.Errorf", "fmt.Sprint", "net.SplitHostPort", "net.JoinHostPort", "net.ParseIP", "time.ParseDuration", "os.Getenv", "sort.", "math.", "(*bytes.Buffer).Len", "(*bytes.Buffer).Bytes", "(*bytes.Buffer).String", "encoding/binary.", "(encoding/binary.bigEndian).Uint", "(encoding/binary.littleEndian).Uint", "slices.Contains", "slices.Index", "slices.Equal", "cmp.", "(*bufio.Scanner).Text", "net/url.", "net/http.StatusText", "log."} {
		if strings.HasPrefix(n, p) {
			return true
		}
	}
	return false
}

func addrKey(v ssa.Value, d int) string {
	if d > 6 {
		return "?"
	}
	switch t := v.(type) {
	case *ssa.FieldAddr:
		return addrKey(t.X, d+1) + "." + fieldName(t.X.Type(), t.Field)
	case *ssa.UnOp:
		if t.Op == token.MUL {
			return "*(" + addrKey(t.X, d+1) + ")"
		}
	case *ssa.TypeAssert:
		if !t.CommaOk {
			// the dynamic value of an interface: the same pointer each time the same interface value is asserted
			return "assert(" + addrKey(t.X, d+1) + ")"
		}
	case *ssa.ChangeType:
		return addrKey(t.X, d+1)
	case *ssa.Parameter:
		return "param:" + t.Name()
	case *ssa.Global:
		return "global:" + t.Name()
	case *ssa.FreeVar:
		return "free:" + t.Name()
	case *ssa.Alloc:
		return fmt.Sprintf("alloc:%p", t)
	case *ssa.IndexAddr:
		if c, ok := constInt(t.Index); ok {
			return addrKey(t.X, d+1) + fmt.Sprintf("[%d]", c)
		}
	}
	return fmt.Sprintf("v:%p", v)
}

// writesOf: the struct field names a module function may store to (transitively); "*" = anything.
var writesMemo = map[*ssa.Function]map[string]bool{}

func writesOf(f *ssa.Function, depth int) map[string]bool {
	if w, ok := writesMemo[f]; ok {
		return w
	}
	w := map[string]bool{}
	writesMemo[f] = w // recursion guard: partial result
	if f == nil || len(f.Blocks) == 0 || depth > 6 {
		w["*"] = true
		return w
	}
	for _, g := range withClosures(f) {
		allInstrs(g, func(in ssa.Instruction) {
			switch t := in.(type) {
			case *ssa.Store:
				switch a := t.Addr.(type) {
				case *ssa.FieldAddr:
					if _, local := rootOf(a).(*ssa.Alloc); !local {
						w[fieldName(a.X.Type(), a.Field)] = true
					}
				case *ssa.Alloc:
				case *ssa.IndexAddr:
					w["[]"] = true
				default:
					if _, isG := t.Addr.(*ssa.Global); isG {
						w["global"] = true
					} else {
						w["*"] = true
					}
				}
			case *ssa.Call, *ssa.Go, *ssa.Defer:
				c := callOf(in)
				if pureCalleeBasic(c) {
					return
				}
				if c.IsInvoke() {
					w["*"] = true
					return
				}
				callee := calleeFunc(c)
				if callee == nil {
					w["*"] = true
					return
				}
				if isModFunc(callee) {
					for k := range writesOf(callee, depth+1) {
						w[k] = true
					}
					return
				}
				// external: harmless unless it is handed a pointer into module data
				for _, a := range c.Args {
					switch a.Type().Underlying().(type) {
					case *types.Pointer, *types.Interface, *types.Map, *types.Slice, *types.Signature:
						if _, isConst := a.(*ssa.Const); !isConst {
							w["*"] = true
						}
					}
				}
			}
		})
	}
	return w
}

// mayWrite: instruction may modify memory that a field/alloc load reads.
func mayWrite(in ssa.Instruction) bool {
	switch t := in.(type) {
	case *ssa.Store:
		return true
	case *ssa.MapUpdate:
		return false
	case *ssa.Call:
		return !pureCallee(&t.Call)
	case *ssa.Defer, *ssa.Go:
		return true
	}
	return false
}

// sameLoad: b reads the same location as a, a dominates b, and nothing that may
// write memory lies on any path from a to b.
func (p *prover) sameLoad(a, b *ssa.UnOp) bool {
	if a == b {
		return true
	}
	if addrKey(a.X, 0) != addrKey(b.X, 0) || strings.Contains(addrKey(a.X, 0), "v:") {
		return false
	}
	ab, bb := a.Block(), b.Block()
	if !(ab == bb && idxOf(a) < idxOf(b)) && !(ab != bb && ab.Dominates(bb)) {
		return false
	}
	clean := true
	reach(p.fn, a, cut{instr: func(in ssa.Instruction) bool { return in == ssa.Instruction(b) }}, func(in ssa.Instruction) bool {
		if in == ssa.Instruction(b) {
			return true
		}
		if mayWrite(in) {
			// a store to a different, non-aliasing kind of location is harmless: only stores whose
			// address key ends in the same field name (or any call) count
			if st, ok := in.(*ssa.Store); ok {
				ka, ks := addrKey(a.X, 0), addrKey(st.Addr, 0)
				la, ls := ka[strings.LastIndex(ka, ".")+1:], ks[strings.LastIndex(ks, ".")+1:]
				if _, isAlloc := st.Addr.(*ssa.Alloc); isAlloc && ka != ks {
					return true
				}
				if la != ls && strings.Contains(ka, ".") && strings.Contains(ks, ".") {
					return true
				}
			}
			// is this writer on a path that actually reaches b?
			if canReach(p.fn, in, b, cut{}) || in.Block() == b.Block() {
				clean = false
				return false
			}
		}
		return true
	})
	return clean
}

// canonValue maps a value to its canonical representative: a load is replaced
// by the value stored to that location when the store dominates it with no
// possible write in between (store→load forwarding), or else by the earliest
// equivalent load; pure accessor calls (bytes.Buffer.Len/Bytes) likewise.
var canonCache = map[ssa.Value]ssa.Value{}

func (p *prover) canon(v ssa.Value) ssa.Value {
	return p.canon0(v)
}

// substituted: simultaneous substitution σ is applied exactly once: the replacement is evaluated with σ switched off.
func (p *prover) substituted(v ssa.Value) (ssa.Value, bool) {
	if p.subst == nil {
		return nil, false
	}
	r, ok := p.subst[v]
	return r, ok
}

func (p *prover) canon0(v ssa.Value) ssa.Value {
	if c, ok := canonCache[v]; ok {
		return c
	}
	res := v
	switch t := v.(type) {
	case *ssa.UnOp:
		if t.Op != token.MUL {
			break
		}
		k := addrKey(t.X, 0)
		if strings.Contains(k, "v:") {
			break
		}
		// store forwarding
		var bestStore *ssa.Store
		var bestLoad *ssa.UnOp
		allInstrs(p.fn, func(in ssa.Instruction) {
			switch u := in.(type) {
			case *ssa.Store:
				if addrKey(u.Addr, 0) == k && p.cleanBetween(u, t, k) {
					if bestStore == nil || instrDominates(bestStore, u) {
						bestStore = u
					}
				}
			case *ssa.UnOp:
				if u != t && u.Op == token.MUL && addrKey(u.X, 0) == k && p.cleanBetween(u, t, k) {
					if bestLoad == nil || instrDominates(u, bestLoad) {
						bestLoad = u
					}
				}
			}
		})
		if bestStore != nil {
			res = p.canon(bestStore.Val)
		} else if bestLoad != nil {
			res = bestLoad
		}
	case *ssa.Call:
		n := calleeName(&t.Call)
		if n == "(*bytes.Buffer).Len" || n == "(*bytes.Buffer).Bytes" || n == "(*bytes.Buffer).String" {
			rk := addrKey(p.canon(t.Call.Args[0]), 0)
			var best *ssa.Call
			allInstrs(p.fn, func(in ssa.Instruction) {
				u, ok := in.(*ssa.Call)
				if !ok || u == t || calleeName(&u.Call) != n {
					return
				}
				if addrKey(p.canon(u.Call.Args[0]), 0) == rk && p.cleanBetween(u, t, "") {
					if best == nil || instrDominates(u, best) {
						best = u
					}
				}
			})
			if best != nil {
				res = best
			}
		}
	}
	canonCache[v] = res
	return res
}

func instrDominates(a, b ssa.Instruction) bool {
	if a.Block() == b.Block() {
		return idxOf(a) < idxOf(b)
	}
	return a.Block().Dominates(b.Block())
}

// cleanBetween: a dominates b and no instruction that may write the location lies on a path from a to b.
func (p *prover) cleanBetween(a, b ssa.Instruction, key string) bool {
	if a == b || !instrDominates(a, b) {
		return false
	}
	clean := true
	field := ""
	if i := strings.LastIndex(key, "."); i >= 0 {
		field = key[i+1:]
	}
	reach(p.fn, a, cut{instr: func(in ssa.Instruction) bool { return in == b }}, func(in ssa.Instruction) bool {
		if in == b || in == a {
			return true
		}
		if !mayWrite(in) {
			return true
		}
		if c, ok := in.(*ssa.Call); ok && field != "" {
			if callee := c.Call.StaticCallee(); callee != nil && isModFunc(callee) {
				w := writesOf(callee, 0)
				if !w["*"] && !w[field] {
					return true
				}
			}
		}
		if st, ok := in.(*ssa.Store); ok {
			ks := addrKey(st.Addr, 0)
			if ks == key {
				// a later store to the very same location: only harmful if it can reach b
			} else {
				if _, isAlloc := st.Addr.(*ssa.Alloc); isAlloc {
					return true
				}
				fs := ""
				if i := strings.LastIndex(ks, "."); i >= 0 {
					fs = ks[i+1:]
				}
				if field != "" && fs != "" && fs != field {
					return true
				}
				if _, isIdx := st.Addr.(*ssa.IndexAddr); isIdx && field != "" {
					return true // element store cannot change a struct field holding a slice header
				}
			}
		}
		// (a dominates b: a path from the write to b that passes a again re-executes the load there, and is harmless)
		if in.Block() == b.Block() && idxOf(in) < idxOf(b) || canReach(p.fn, in, b, cut{instr: func(x ssa.Instruction) bool { return x == a }}) {
			clean = false
			return false
		}
		return true
	})
	return clean
}

func (p *prover) atomFor(v ssa.Value) string {
	v = p.canon(v)
	key := fmt.Sprintf("v:%p", v)
	if _, ok := p.atoms[key]; !ok {
		p.atoms[key] = describe(v)
	}
	return key
}

func (p *prover) atomLin(key string) linExpr {
	e := newLin(0)
	e.t[key] = 1
	return e
}

// lin converts an integer SSA value to a linear expression and records facts about its atoms.
func (p *prover) lin(v ssa.Value) linExpr {
	if r, ok := p.substituted(v); ok {
		old := p.subst
		p.subst = nil
		defer func() { p.subst = old }()
		return p.lin(r)
	}
	v = p.canon(v)
	if r, ok := p.substituted(v); ok {
		old := p.subst
		p.subst = nil
		defer func() { p.subst = old }()
		return p.lin(r)
	}
	switch t := v.(type) {
	case *ssa.Const:
		if c, ok := constInt(t); ok {
			return newLin(c)
		}
	case *ssa.Convert:
		if isIntType(t.X.Type()) && isIntType(t.Type()) {
			// widening or same-size conversions keep the value when the source range fits the target
			slo, shi := typeRange(t.X.Type())
			tlo, thi := typeRange(t.Type())
			fits := true
			if tlo != nil && (slo == nil || *slo < *tlo) {
				fits = false // signed → unsigned may wrap; keep as atom with the target's range
			}
			if thi != nil && (shi == nil || *shi > *thi) {
				fits = false
			}
			if fits {
				return p.lin(t.X)
			}
			// int → uintN of a value known non-negative and small is still common (uint32(len(x))): treat
			// len-derived conversions to ≥32-bit unsigned as value preserving
			if b, ok := t.Type().Underlying().(*types.Basic); ok && (b.Kind() == types.Uint32 || b.Kind() == types.Uint64 || b.Kind() == types.Uint) {
				if c, ok := t.X.(*ssa.Call); ok && calleeName(&c.Call) == "builtin.len" {
					return p.lin(t.X)
				}
			}
		}
	case *ssa.ChangeType:
		if isIntType(t.X.Type()) {
			return p.lin(t.X)
		}
	case *ssa.BinOp:
		switch t.Op {
		case token.ADD:
			l := p.lin(t.X).add(p.lin(t.Y), 1)
			// arithmetic in a type narrower than 64 bits wraps around: the sum is the mathematical one only where
			// it is shown to stay within the type (a uint16 counter compared with <= 65535 never leaves its loop)
			if _, hi := typeRange(t.Type()); hi != nil && !p.inWrapCheck {
				p.inWrapCheck = true
				fits := p.proveRaw(newLin(*hi).add(l, -1))
				p.inWrapCheck = false
				if !fits {
					break
				}
			}
			return l
		case token.SUB:
			if lo, _ := typeRange(t.Type()); lo == nil {
				return p.lin(t.X).add(p.lin(t.Y), -1)
			}
		case token.MUL:
			if c, ok := constInt(t.Y); ok && c > -1<<20 && c < 1<<20 {
				return p.lin(t.X).scale(c)
			}
			if c, ok := constInt(t.X); ok && c > -1<<20 && c < 1<<20 {
				return p.lin(t.Y).scale(c)
			}
		case token.SHL:
			if c, ok := constInt(t.Y); ok && c >= 0 && c < 20 {
				if _, hi := p.interval(t.X, 0); hi != nil && *hi < 1<<20 {
					return p.lin(t.X).scale(1 << uint(c))
				}
			}
		}
	case *ssa.Call:
		if calleeName(&t.Call) == "builtin.len" {
			return p.lenOf(t.Call.Args[0])
		}
		if calleeName(&t.Call) == "(*bytes.Buffer).Len" {
			return p.bufLen(t.Call.Args[0], t)
		}
	}
	key := p.atomFor(v)
	p.atomFacts(key, v)
	return p.atomLin(key)
}

// lenOf returns len(x) as a linear expression.
func (p *prover) lenOf(x ssa.Value) linExpr {
	if r, ok := p.substituted(x); ok {
		old := p.subst
		p.subst = nil
		defer func() { p.subst = old }()
		return p.lenOf(r)
	}
	x = p.canon(x)
	if r, ok := p.substituted(x); ok {
		old := p.subst
		p.subst = nil
		defer func() { p.subst = old }()
		return p.lenOf(r)
	}
	switch t := x.(type) {
	case *ssa.UnOp:
		// a package-level table that only its initialiser ever assigns has a constant length
		if g, ok := t.X.(*ssa.Global); ok && t.Op == token.MUL {
			if n, ok := constLenGlobal(g); ok {
				return newLin(n)
			}
		}
	case *ssa.Const:
		if s, ok := constString(t); ok {
			return newLin(int64(len(s)))
		}
		if t.Value == nil {
			return newLin(0)
		}
	case *ssa.Slice:
		var lo, hi linExpr
		if t.Low != nil {
			lo = p.lin(t.Low)
		} else {
			lo = newLin(0)
		}
		if t.High != nil {
			hi = p.lin(t.High)
		} else {
			hi = p.lenOfBase(t.X)
		}
		return hi.add(lo, -1)
	case *ssa.Convert:
		// string <-> []byte keep the length
		if _, ok := t.X.Type().Underlying().(*types.Basic); ok {
			if _, isSl := t.Type().Underlying().(*types.Slice); isSl {
				return p.lenOf(t.X)
			}
		}
		if _, ok := t.X.Type().Underlying().(*types.Slice); ok {
			if b, isB := t.Type().Underlying().(*types.Basic); isB && b.Info()&types.IsString != 0 {
				return p.lenOf(t.X)
			}
		}
	case *ssa.ChangeType:
		return p.lenOf(t.X)
	case *ssa.MakeSlice:
		return p.lin(t.Len)
	case *ssa.BinOp:
		if t.Op == token.ADD && isSeqType(t.Type()) {
			return p.lenOf(t.X).add(p.lenOf(t.Y), 1)
		}
	case *ssa.Call:
		switch calleeName(&t.Call) {
		case "(*bytes.Buffer).Bytes", "(*bytes.Buffer).String":
			return p.bufLen(t.Call.Args[0], t)
		case "builtin.append":
			if len(t.Call.Args) == 2 {
				return p.lenOf(t.Call.Args[0]).add(p.lenOf(t.Call.Args[1]), 1)
			}
		case "strings.ToLower", "strings.ToUpper":
			// ASCII-only equality is not guaranteed; keep as its own atom
		case "strings.TrimSpace", "strings.TrimPrefix", "strings.TrimSuffix", "strings.TrimRight", "strings.TrimLeft", "strings.Trim":
			key := "len:" + p.atomFor(x)
			p.atoms[key] = "len(" + describe(x) + ")"
			e := p.atomLin(key)
			p.fact(e)                        // >= 0
			p.ge(p.lenOf(t.Call.Args[0]), e) // never longer than the argument
			return e
		}
	}
	return p.lenGeneric(x)
}

// bufLen: the unread length of a bytes.Buffer as seen by an accessor call; two accessor calls on the same
// buffer with no write in between denote the same length.
func (p *prover) bufLen(recv ssa.Value, at *ssa.Call) linExpr {
	rk := addrKey(p.canon(recv), 0)
	// find the earliest accessor (Len/Bytes/String) on this buffer that is clean up to `at`
	var first *ssa.Call
	allInstrs(p.fn, func(in ssa.Instruction) {
		u, ok := in.(*ssa.Call)
		if !ok {
			return
		}
		n := calleeName(&u.Call)
		if n != "(*bytes.Buffer).Len" && n != "(*bytes.Buffer).Bytes" && n != "(*bytes.Buffer).String" {
			return
		}
		if addrKey(p.canon(u.Call.Args[0]), 0) != rk {
			return
		}
		if u == at || p.cleanBetween(u, at, "") {
			if first == nil || instrDominates(u, first) {
				first = u
			}
		}
	})
	if first == nil {
		first = at
	}
	key := fmt.Sprintf("buflen:%p", first)
	p.atoms[key] = "len(" + describe(recv) + ")"
	e := p.atomLin(key)
	if !p.bounds[key] {
		p.bounds[key] = true
		p.fact(e)
	}
	return e
}

func (p *prover) lenOfBase(x ssa.Value) linExpr {
	if r, ok := p.substituted(x); ok {
		old := p.subst
		p.subst = nil
		defer func() { p.subst = old }()
		return p.lenOfBase(r)
	}
	x = p.canon(x)
	// arrays
	tt := x.Type()
	if pt, ok := tt.Underlying().(*types.Pointer); ok {
		tt = pt.Elem()
	}
	if at, ok := tt.Underlying().(*types.Array); ok {
		return newLin(at.Len())
	}
	return p.lenOf(x)
}

func (p *prover) lenGeneric(x ssa.Value) linExpr {
	key := "len:" + p.atomFor(x)
	if _, ok := p.atoms[key]; !ok {
		p.atoms[key] = "len(" + describe(x) + ")"
	}
	e := p.atomLin(key)
	if !p.bounds[key] {
		p.bounds[key] = true
		p.fact(e) // len >= 0
		p.lenFacts(key, x)
	}
	return e
}

// lenFacts: postconditions on the length of call results.
func (p *prover) lenFacts(key string, x ssa.Value) {
	e := p.atomLin(key)
	switch t := x.(type) {
	case *ssa.UnOp:
		if t.Op == token.MUL {
			p.condUpdateFact(e, t)
			if fa, ok := t.X.(*ssa.FieldAddr); ok && fieldNeverEmpty(fa) {
				p.ge(e, newLin(1))
			}
			// a field that is only ever appended to is at least as long as it was at an earlier load
			if fa, ok := t.X.(*ssa.FieldAddr); ok && p.growDepth < 2 && fieldOnlyGrows(fa) {
				k := addrKey(p.canon0(t.X), 0)
				p.growDepth++
				allInstrs(p.fn, func(in ssa.Instruction) {
					l1, ok := in.(*ssa.UnOp)
					if !ok || l1 == t || l1.Op != token.MUL || !instrDominates(l1, t) {
						return
					}
					if _, isFA := l1.X.(*ssa.FieldAddr); !isFA || addrKey(p.canon0(l1.X), 0) != k || k == "" {
						return
					}
					p.ge(e, p.lenOf(l1))
				})
				p.growDepth--
			}
		}
	case *ssa.Call:
		n := calleeName(&t.Call)
		switch n {
		case "strings.Split", "strings.SplitN", "strings.SplitAfter", "bytes.Split":
			if sep, ok := constString(t.Call.Args[1]); ok && sep != "" {
				if n == "strings.SplitN" {
					if c, ok := constInt(t.Call.Args[2]); !ok || c == 0 {
						return
					}
				}
				p.ge(e, newLin(1))
			}
			if n == "strings.SplitN" {
				if c, ok := constInt(t.Call.Args[2]); ok && c > 0 {
					p.ge(newLin(c), e)
				}
			}
			// len(strings.Split(s, sep)) == strings.Count(s, sep) + 1 for a non-empty sep
			if n == "strings.Split" {
				if sep, ok := constString(t.Call.Args[1]); ok && sep != "" {
					allInstrs(p.fn, func(in ssa.Instruction) {
						cc, ok := in.(*ssa.Call)
						if !ok || calleeName(&cc.Call) != "strings.Count" {
							return
						}
						s2, ok2 := constString(cc.Call.Args[1])
						if ok2 && s2 == sep && p.canon(cc.Call.Args[0]) == p.canon(t.Call.Args[0]) {
							cnt := p.lin(cc)
							p.ge(e, cnt.add(newLin(1), 1))
							p.ge(cnt.add(newLin(1), 1), e)
						}
					})
				}
			}
		}
	case *ssa.Phi:
		// a merge φ (not a loop header) whose incoming lengths are all "the same linear terms plus a constant":
		// its length lies between the smallest and the largest of them (e.g. φ(s, append(s, x)): len(s) <= len(φ) <= len(s)+1)
		if isLoopHeaderPhi(t) || p.phiDepth > 2 || p.subst != nil {
			return
		}
		// a constant lower bound that holds edge by edge: a constant's length, or "known non-empty on the way here"
		// (the `if s == "" { s = "/" }` idiom: φ("/", s) with s != "" on the other edge)
		if lb, ok := phiLenLowerBound(t); ok && lb > 0 {
			p.ge(e, newLin(lb))
		}
		p.phiDepth++
		defer func() { p.phiDepth-- }()
		var first linExpr
		var minC, maxC int64
		for i, ev := range t.Edges {
			if ev == ssa.Value(t) {
				return
			}
			le := p.lenOf(ev)
			if i == 0 {
				first, minC, maxC = le, le.c, le.c
				continue
			}
			if len(le.t) != len(first.t) {
				return
			}
			for k, v := range le.t {
				if first.t[k] != v {
					return
				}
			}
			if le.c < minC {
				minC = le.c
			}
			if le.c > maxC {
				maxC = le.c
			}
		}
		if len(t.Edges) == 0 {
			return
		}
		lo, hi := first, first
		lo.c, hi.c = minC, maxC
		lo = newLin(0).add(lo, 1)
		lo.c = minC
		hi = newLin(0).add(hi, 1)
		hi.c = maxC
		p.ge(e, lo)
		p.ge(hi, e)
	}
}

// interval gives constant bounds of an integer value where they follow from its definition.
func (p *prover) interval(v ssa.Value, d int) (lo, hi *int64) {
	mk := func(x int64) *int64 { return &x }
	if d > 8 {
		return nil, nil
	}
	if c, ok := constInt(v); ok {
		return mk(c), mk(c)
	}
	tlo, thi := typeRange(v.Type())
	if l, h, ok := tableFieldRange(v); ok {
		return mk(l), mk(h)
	}
	switch t := v.(type) {
	case *ssa.Convert:
		if isIntType(t.X.Type()) {
			l, h := p.interval(t.X, d+1)
			if l != nil && h != nil {
				// fits target?
				if (tlo == nil || *l >= *tlo) && (thi == nil || *h <= *thi) {
					return l, h
				}
			}
			if l != nil && tlo == nil && thi == nil {
				return l, h
			}
		}
	case *ssa.BinOp:
		xl, xh := p.interval(t.X, d+1)
		yl, yh := p.interval(t.Y, d+1)
		switch t.Op {
		case token.AND:
			if yh != nil && yl != nil && *yl >= 0 {
				return mk(0), yh
			}
			if xh != nil && xl != nil && *xl >= 0 {
				return mk(0), xh
			}
		case token.OR, token.XOR:
			if xl != nil && yl != nil && xh != nil && yh != nil && *xl >= 0 && *yl >= 0 {
				// bound by next power of two
				m := *xh
				if *yh > m {
					m = *yh
				}
				b := int64(1)
				for b <= m {
					b <<= 1
				}
				return mk(0), mk(b - 1)
			}
		case token.SHL:
			if c, ok := constInt(t.Y); ok && c >= 0 && c < 32 && xl != nil && xh != nil && *xl >= 0 && *xh < 1<<30 {
				return mk(*xl << uint(c)), mk(*xh << uint(c))
			}
		case token.SHR:
			if c, ok := constInt(t.Y); ok && c >= 0 && c < 63 && xl != nil && xh != nil && *xl >= 0 {
				return mk(*xl >> uint(c)), mk(*xh >> uint(c))
			}
		case token.ADD:
			if xl != nil && yl != nil && xh != nil && yh != nil {
				return mk(*xl + *yl), mk(*xh + *yh)
			}
		case token.REM:
			if yl != nil && yh != nil && *yl > 0 {
				if xl != nil && *xl >= 0 || tlo != nil && *tlo == 0 {
					return mk(0), mk(*yh - 1)
				}
			}
		case token.QUO:
			if c, ok := constInt(t.Y); ok && c > 0 && xl != nil && xh != nil && *xl >= 0 {
				return mk(*xl / c), mk(*xh / c)
			}
		}
	case *ssa.Call:
		if f := t.Call.StaticCallee(); f != nil && isModFunc(f) && len(f.Blocks) > 0 && f.Signature.Results().Len() == 1 {
			// constant-set return summary of a module function
			var l, h *int64
			all := true
			for _, rv := range returnValues(f, 0) {
				c, ok := constInt(rv)
				if !ok {
					all = false
					break
				}
				if l == nil || c < *l {
					l = mk(c)
				}
				if h == nil || c > *h {
					h = mk(c)
				}
			}
			if all && l != nil {
				return l, h
			}
			// an index into a constant-length table: every return of the callee is provably below the table's
			// length (by the callee's own guards), or a negative constant
			if d < 4 {
				if n, ok := calleeTableBound(f); ok {
					lo := int64(-1)
					return &lo, &n
				}
			}
			// range summary: the interval of every value the function can return, computed inside the callee
			// from types and constants alone (e.g. a big-endian decoder returning int(b[0])<<8 | int(b[1]))
			if d < 4 {
				q := newProver(f)
				var sl, sh *int64
				okAll := true
				for i, rv := range returnValues(f, 0) {
					rl, rh := q.interval(rv, d+3)
					if i == 0 {
						sl, sh = rl, rh
					} else {
						if sl != nil && (rl == nil || *rl < *sl) {
							sl = rl
						}
						if sh != nil && (rh == nil || *rh > *sh) {
							sh = rh
						}
					}
					if rl == nil && rh == nil {
						okAll = false
					}
				}
				if okAll && (sl != nil || sh != nil) {
					// intersect with the type's own range
					if sl == nil {
						sl = tlo
					}
					if sh == nil {
						sh = thi
					}
					return sl, sh
				}
			}
		}
	case *ssa.Phi:
		var l, h *int64
		for i, e := range t.Edges {
			if e == v {
				continue
			}
			el, eh := p.interval(e, d+3)
			if i == 0 || l != nil || h != nil {
			}
			if el == nil {
				l = nil
			}
			if eh == nil {
				h = nil
			}
			if i == 0 {
				l, h = el, eh
				continue
			}
			if l != nil && el != nil && *el < *l {
				l = el
			}
			if h != nil && eh != nil && *eh > *h {
				h = eh
			}
			if el == nil {
				l = nil
			}
			if eh == nil {
				h = nil
			}
		}
		if l != nil || h != nil {
			return l, h
		}
	}
	return tlo, thi
}

// atomFacts records what is known about an atom from its definition.
func (p *prover) atomFacts(key string, v ssa.Value) {
	if p.seenV[v] {
		return
	}
	p.seenV[v] = true
	e := p.atomLin(key)
	p.tableRowFact(e, v)
	if lo, hi := p.interval(v, 0); lo != nil || hi != nil {
		if lo != nil {
			p.ge(e, newLin(*lo))
		}
		if hi != nil {
			p.ge(newLin(*hi), e)
		}
	}
	switch t := v.(type) {
	case *ssa.Phi:
		// monotone induction variable: φ = [init, φ ± c]
		var init ssa.Value
		step, okStep := int64(0), false
		mono := true
		for _, ed := range t.Edges {
			if b, ok := ed.(*ssa.BinOp); ok && (b.Op == token.ADD || b.Op == token.SUB) && b.X == ssa.Value(t) {
				if c, ok := constInt(b.Y); ok {
					if b.Op == token.SUB {
						c = -c
					}
					if okStep && (c > 0) != (step > 0) {
						mono = false
					}
					step, okStep = c, true
					continue
				}
			}
			if ed == ssa.Value(t) {
				continue
			}
			if init != nil {
				mono = false
			}
			init = ed
		}
		if okStep && mono && init != nil {
			if step >= 0 {
				p.ge(e, p.lin(init))
			} else {
				p.ge(p.lin(init), e)
			}
		}
	case *ssa.BinOp:
		switch t.Op {
		case token.QUO:
			// q = x / c  (c > 0 const, x >= 0): c*q <= x < c*q + c
			if c, ok := constInt(t.Y); ok && c > 0 {
				x := p.lin(t.X)
				p.ge(x, e.scale(c))
				p.ge(e.scale(c).add(newLin(c-1), 1), x)
			}
		case token.REM:
			if lo, _ := typeRange(t.Type()); lo != nil && *lo == 0 {
				// unsigned: 0 <= r < y
				p.fact(e)
				p.ge(p.lin(t.Y).add(newLin(1), -1), e)
			}
		case token.SUB:
			// unsigned subtraction kept as atom
		}
	case *ssa.Extract:
		if c, ok := t.Tuple.(*ssa.Call); ok {
			n := calleeName(&c.Call)
			if t.Index == 0 && (strings.HasSuffix(n, ".Read") || strings.HasSuffix(n, ".Write") || n == "io.ReadFull" || n == "copy") {
				p.fact(e)
			}
		}
		// for i, ch := range s (string): 0 <= i < len(s) whenever the iteration yielded a value
		if nx, ok := t.Tuple.(*ssa.Next); ok && nx.IsString && t.Index == 1 {
			if rg, ok := nx.Iter.(*ssa.Range); ok {
				p.fact(e)
				p.ge(p.lenOf(rg.X).add(newLin(1), -1), e)
			}
		}
	case *ssa.Call:
		n := calleeName(&t.Call)
		switch n {
		case "strings.Index", "strings.IndexByte", "strings.LastIndex", "strings.IndexAny", "strings.IndexRune", "strings.LastIndexByte", "bytes.Index", "bytes.IndexByte", "strings.LastIndexAny", "slices.Index", "slices.IndexFunc":
			p.ge(e, newLin(-1))
			// idx < len(s) always (also for -1)
			p.ge(p.lenOf(t.Call.Args[0]).add(newLin(1), -1), e)
		case "builtin.copy":
			// copy(dst, src) reports how many elements it copied: no more than either operand holds
			p.fact(e)
			if len(t.Call.Args) == 2 {
				p.ge(p.lenOf(t.Call.Args[0]), e)
				p.ge(p.lenOf(t.Call.Args[1]), e)
			}
		case "strings.Count":
			p.fact(e)
		case "builtin.min":
			for _, a := range t.Call.Args {
				p.ge(p.lin(a), e)
			}
		}
		if t.Call.IsInvoke() && t.Call.Method.Name() == "Len" {
			p.fact(e)
		}
	}
}

// ---------------------------------------------------------------------------
// guards → facts

func (p *prover) addGuard(g guardInfo) {
	cond, pos := g.Cond, g.Pos
	switch t := cond.(type) {
	case *ssa.BinOp:
		if !isIntType(t.X.Type()) {
			// string comparison with constant: s == "" ⇒ len(s) = 0; s != "" ⇒ len(s) >= 1
			if x, eq, lit, ok := strCmp(t); ok {
				l := p.lenOf(x)
				if eq == pos {
					p.ge(l, newLin(int64(len(lit))))
					p.ge(newLin(int64(len(lit))), l)
				} else if lit == "" {
					p.ge(l, newLin(1))
				}
			}
			return
		}
		a, b := p.lin(t.X), p.lin(t.Y)
		op := t.Op
		if !pos {
			switch op {
			case token.LSS:
				op = token.GEQ
			case token.LEQ:
				op = token.GTR
			case token.GTR:
				op = token.LEQ
			case token.GEQ:
				op = token.LSS
			case token.EQL:
				op = token.NEQ
			case token.NEQ:
				op = token.EQL
			}
		}
		one := newLin(1)
		// positions of different bytes in one string differ: for x = Index(s, "<") and y = Index(s, ">") a
		// non-strict order between them is a strict one
		if distinctBytePositions(p, t.X, t.Y) {
			switch op {
			case token.LEQ:
				op = token.LSS
			case token.GEQ:
				op = token.GTR
			}
		}
		switch op {
		case token.LSS:
			p.ge(b.add(one, -1), a)
		case token.LEQ:
			p.ge(b, a)
		case token.GTR:
			p.ge(a.add(one, -1), b)
		case token.GEQ:
			p.ge(a, b)
		case token.EQL:
			p.ge(a, b)
			p.ge(b, a)
		case token.NEQ:
			// x != c where x >= c is known (e.g. index != -1): x >= c+1.  Decided lazily, since the
			// supporting fact (an invariant, a postcondition) may be added after this guard.
			p.pendingNE = append(p.pendingNE, [2]linExpr{a, b})
			p.idxPending = append(p.idxPending, t.X, t.Y)
		}
		// once an Index-like result is known non-negative, its postcondition applies
		p.indexPost(t.X)
		p.indexPost(t.Y)
	case *ssa.Call:
		n := calleeName(&t.Call)
		if !pos {
			return
		}
		switch n {
		case "strings.HasPrefix", "strings.HasSuffix", "strings.Contains", "bytes.HasPrefix", "bytes.HasSuffix", "bytes.Contains":
			p.ge(p.lenOf(t.Call.Args[0]), p.lenOf(t.Call.Args[1]))
		}
	}
}

// indexPost: v = strings.Index(s, sub) and v >= 0 provable ⇒ v + len(sub) <= len(s).
func (p *prover) indexPost(v ssa.Value) {
	c, ok := v.(*ssa.Call)
	if !ok {
		return
	}
	n := calleeName(&c.Call)
	var subLen linExpr
	switch n {
	case "strings.Index", "strings.LastIndex", "bytes.Index":
		subLen = p.lenOf(c.Call.Args[1])
	case "strings.IndexByte", "strings.IndexRune", "strings.IndexAny", "strings.LastIndexByte", "bytes.IndexByte", "strings.LastIndexAny":
		subLen = newLin(1)
	default:
		return
	}
	e := p.lin(v)
	if p.proveRaw(e) {
		p.ge(p.lenOf(c.Call.Args[0]), e.add(subLen, 1))
	}
}

// ---------------------------------------------------------------------------
// Fourier–Motzkin

type fmRow struct {
	c *big.Int
	t map[string]*big.Int
}

func toRow(e linExpr) fmRow {
	r := fmRow{c: big.NewInt(e.c), t: map[string]*big.Int{}}
	for k, v := range e.t {
		if v != 0 {
			r.t[k] = big.NewInt(v)
		}
	}
	return r
}

// prove: facts ⊢ goal >= 0 ?
func (p *prover) prove(goal linExpr) bool {
	p.refresh()
	return p.proveRaw(goal)
}

func (p *prover) proveRaw(goal linExpr) bool {
	// refute facts ∧ (goal <= -1)  i.e.  -goal - 1 >= 0
	rows := []fmRow{toRow(goal.scale(-1).add(newLin(1), -1))}
	// only facts sharing variables transitively with the goal matter; keep all but cap size
	for _, f := range p.facts {
		rows = append(rows, toRow(f))
	}
	return fmUnsat(rows)
}

func fmUnsat(rows []fmRow) bool {
	for iter := 0; iter < 40; iter++ {
		// constant contradiction?
		vars := map[string]int{}
		for _, r := range rows {
			if len(r.t) == 0 {
				if r.c.Sign() < 0 {
					return true
				}
				continue
			}
			for k := range r.t {
				vars[k]++
			}
		}
		if len(vars) == 0 {
			return false
		}
		// pick the variable with the fewest pos*neg products
		best, bestCost := "", -1
		for v := range vars {
			pos, neg := 0, 0
			for _, r := range rows {
				if c, ok := r.t[v]; ok {
					if c.Sign() > 0 {
						pos++
					} else {
						neg++
					}
				}
			}
			cost := pos * neg
			if bestCost < 0 || cost < bestCost || (cost == bestCost && v < best) {
				best, bestCost = v, cost
			}
		}
		var pos, neg, rest []fmRow
		for _, r := range rows {
			c, ok := r.t[best]
			switch {
			case !ok:
				rest = append(rest, r)
			case c.Sign() > 0:
				pos = append(pos, r)
			default:
				neg = append(neg, r)
			}
		}
		for _, a := range pos {
			for _, b := range neg {
				// a: ca*x + A >= 0 (ca>0); b: cb*x + B >= 0 (cb<0)  ⇒  (-cb)*A + ca*B >= 0
				ca := a.t[best]
				cb := new(big.Int).Neg(b.t[best])
				nr := fmRow{c: new(big.Int), t: map[string]*big.Int{}}
				nr.c.Add(new(big.Int).Mul(cb, a.c), new(big.Int).Mul(ca, b.c))
				for k, v := range a.t {
					if k == best {
						continue
					}
					nr.t[k] = new(big.Int).Mul(cb, v)
				}
				for k, v := range b.t {
					if k == best {
						continue
					}
					x := new(big.Int).Mul(ca, v)
					if old, ok := nr.t[k]; ok {
						x.Add(x, old)
					}
					if x.Sign() == 0 {
						delete(nr.t, k)
					} else {
						nr.t[k] = x
					}
				}
				rest = append(rest, nr)
			}
		}
		if len(rest) > 4000 {
			return false
		}
		rows = rest
	}
	return false
}

// ---------------------------------------------------------------------------
// obligations

type obligation struct {
	In    ssa.Instruction
	Kind  string // index | slice | div | typeassert | panic
	Expr  string // stable description of the indexed expression
	Goals []linExpr
	Desc  []string
}

// proveAt builds a prover with every fact available at instruction in.
func proveAt(fn *ssa.Function, in ssa.Instruction) *prover {
	p := newProver(fn)
	p.at = in
	for _, g := range guardAtoms(fn, nil, in) {
		p.addGuard(g)
	}
	p.addExecutedChecks(fn, in)
	p.addJoinHulls(fn, in)
	return p
}

// addJoinHulls: where control joins from edges that each fix the same integer value to a constant (the continuing
// paths of `if n != 2 && n != 3 { return }`, the body of `case 2, 3:`), the value lies between the smallest and the
// largest of those constants from the join on.  No single guard dominates the join, so the fact is derived from the
// join's incoming edges.
func (p *prover) addJoinHulls(fn *ssa.Function, in ssa.Instruction) {
	if in == nil || in.Block() == nil {
		return
	}
	// the equality an edge pr -> b establishes, looking up through blocks that only jump on
	edgeEq := func(pr, b *ssa.BasicBlock) (ssa.Value, int64, bool) {
		for hops := 0; hops < 4; hops++ {
			if len(pr.Instrs) == 0 {
				return nil, 0, false
			}
			if iff, ok := pr.Instrs[len(pr.Instrs)-1].(*ssa.If); ok {
				bo, ok := iff.Cond.(*ssa.BinOp)
				if !ok || (bo.Op != token.EQL && bo.Op != token.NEQ) {
					return nil, 0, false
				}
				x, y := bo.X, bo.Y
				if _, isC := x.(*ssa.Const); isC {
					x, y = y, x
				}
				c, isC := constInt(y)
				if !isC || !isIntType(x.Type()) {
					return nil, 0, false
				}
				onTrue := pr.Succs[0] == b
				if pr.Succs[0] == pr.Succs[1] {
					return nil, 0, false
				}
				if (bo.Op == token.EQL) == onTrue {
					return x, c, true
				}
				return nil, 0, false
			}
			if _, ok := pr.Instrs[len(pr.Instrs)-1].(*ssa.Jump); !ok || len(pr.Preds) != 1 {
				return nil, 0, false
			}
			// a forwarding block must not redefine anything: it only jumps
			if len(pr.Instrs) != 1 {
				return nil, 0, false
			}
			pr, b = pr.Preds[0], pr
		}
		return nil, 0, false
	}
	for _, j := range fn.Blocks {
		if len(j.Preds) < 2 || !(j == in.Block() || j.Dominates(in.Block())) {
			continue
		}
		var x ssa.Value
		var lo, hi int64
		ok := true
		for i, pr := range j.Preds {
			v, c, has := edgeEq(pr, j)
			if !has || (i > 0 && v != x) {
				ok = false
				break
			}
			if i == 0 {
				x, lo, hi = v, c, c
			}
			if c < lo {
				lo = c
			}
			if c > hi {
				hi = c
			}
		}
		if !ok || x == nil {
			continue
		}
		e := p.lin(x)
		p.ge(e, newLin(lo))
		p.ge(newLin(hi), e)
	}
}

// addExecutedChecks: every index/slice operation that dominates `at` has been executed without panicking when
// control is at `at`, so its own bounds hold there (for the SSA values it used).  Each of those operations is an
// obligation of its own, so by induction over execution order nothing is assumed that is not also checked.
func (p *prover) addExecutedChecks(fn *ssa.Function, at ssa.Instruction) {
	if at == nil {
		return
	}
	for _, b := range fn.Blocks {
		if b != at.Block() && !b.Dominates(at.Block()) {
			continue
		}
		for _, x := range b.Instrs {
			if x == at {
				break
			}
			switch x.(type) {
			case *ssa.Slice, *ssa.IndexAddr, *ssa.Index:
				if !x.Pos().IsValid() {
					continue
				}
				gs, _, _, _ := boundsGoals(p, x)
				for _, g := range gs {
					p.fact(g)
				}
			}
		}
	}
}

// boundsGoals returns the inequalities (each >= 0) that make the instruction safe, using prover p's term language.
func boundsGoals(p *prover, in ssa.Instruction) (goals []linExpr, descs []string, kind, expr string) {
	one := newLin(1)
	switch t := in.(type) {
	case *ssa.Panic:
		// an explicit panic is harmless exactly where it cannot be reached: the goal is falsehood, provable only from
		// contradictory guards (a switch over an enumeration whose every value the callers pass is handled)
		return []linExpr{newLin(-1)}, []string{"unreachable"}, "panic", "panic"
	case *ssa.IndexAddr:
		i, n := p.lin(t.Index), p.lenOfBase(t.X)
		return []linExpr{i, n.add(i, -1).add(one, -1)}, []string{"index >= 0", "index < len"}, "index", describe(t.X) + "[" + describe(t.Index) + "]"
	case *ssa.Index:
		i, n := p.lin(t.Index), p.lenOf(t.X)
		return []linExpr{i, n.add(i, -1).add(one, -1)}, []string{"index >= 0", "index < len"}, "index", describe(t.X) + "[" + describe(t.Index) + "]"
	case *ssa.Slice:
		n := p.lenOfBase(t.X)
		lo, hi := newLin(0), n
		if t.Low != nil {
			lo = p.lin(t.Low)
		}
		if t.High != nil {
			hi = p.lin(t.High)
		}
		var gs []linExpr
		var ds []string
		if t.Low != nil {
			gs = append(gs, lo)
			ds = append(ds, "low >= 0")
		}
		gs = append(gs, hi.add(lo, -1))
		ds = append(ds, "low <= high")
		if t.High != nil {
			gs = append(gs, n.add(hi, -1))
			ds = append(ds, "high <= len")
		}
		return gs, ds, "slice", describe(t)
	case *ssa.BinOp:
		if t.Op == token.QUO || t.Op == token.REM {
			d := p.lin(t.Y)
			// d >= 1 (unsigned or provably positive); negative divisors are not expected in this code base
			return []linExpr{d.add(one, -1)}, []string{"divisor >= 1"}, "div", describe(t)
		}
	}
	return nil, nil, "", ""
}

// distinctBytePositions: x and y are strings.Index / IndexByte / LastIndex results for two different single-byte
// needles in the same string (same canonical argument).  Whenever both are valid positions they cannot coincide.
func distinctBytePositions(p *prover, x, y ssa.Value) bool {
	needle := func(v ssa.Value) (ssa.Value, string, bool) {
		c, ok := p.canon(v).(*ssa.Call)
		if !ok {
			return nil, "", false
		}
		switch calleeName(&c.Call) {
		case "strings.Index", "strings.LastIndex":
			if s, ok := constString(c.Call.Args[1]); ok && len(s) == 1 {
				return c.Call.Args[0], s, true
			}
		case "strings.IndexByte", "strings.LastIndexByte":
			if n, ok := constInt(c.Call.Args[1]); ok {
				return c.Call.Args[0], string(rune(n)), true
			}
		}
		return nil, "", false
	}
	sx, nx, okx := needle(x)
	sy, ny, oky := needle(y)
	if !okx || !oky || nx == ny {
		return false
	}
	return p.atomFor(sx) == p.atomFor(sy)
}

var constLenMemo = map[*ssa.Global]int64{}

// constLenGlobal: the length of a module-level slice (or array) variable that no function other than the package
// initialiser assigns, whose initialiser the abstract evaluator can compute.
func constLenGlobal(g *ssa.Global) (int64, bool) {
	if n, ok := constLenMemo[g]; ok {
		return n, n >= 0
	}
	constLenMemo[g] = -1
	if g.Pkg == nil || !isModPkg(g.Pkg.Pkg.Path()) || theProgram == nil {
		return 0, false
	}
	elem := g.Type().(*types.Pointer).Elem()
	if at, ok := elem.Underlying().(*types.Array); ok {
		constLenMemo[g] = at.Len()
		return at.Len(), true
	}
	if _, ok := elem.Underlying().(*types.Slice); !ok {
		return 0, false
	}
	if assignedOutsideInit(g) {
		return 0, false
	}
	v, und := evalGlobal(theProgram, strings.TrimPrefix(strings.TrimPrefix(g.Pkg.Pkg.Path(), modPath), "/"), g.Name())
	if sl, ok := v.(avals); ok && und == "" {
		constLenMemo[g] = int64(len(sl.cells))
		return int64(len(sl.cells)), true
	}
	return 0, false
}

var tableBoundMemo = map[*ssa.Function]int64{}

// calleeTableBound: f returns either a negative constant or a value its own guards bound by len(G)-1 for one
// constant-length table G (a lookup function such as "index of kind in the table, or -1").
func calleeTableBound(f *ssa.Function) (int64, bool) {
	if n, ok := tableBoundMemo[f]; ok {
		return n, n >= 0
	}
	tableBoundMemo[f] = -1
	var cands []int64
	allInstrs(f, func(in ssa.Instruction) {
		if u, ok := in.(*ssa.UnOp); ok {
			if g, ok := u.X.(*ssa.Global); ok {
				if n, ok := constLenGlobal(g); ok {
					cands = append(cands, n-1)
				}
			}
		}
	})
	for _, c := range cands {
		okAll, any := true, false
		for _, rt := range realReturns(f) {
			res := retResults(rt)
			if len(res) != 1 {
				okAll = false
				break
			}
			for _, v := range valuesAt(f, res[0], rt) {
				if k, isC := constInt(v); isC && k < 0 {
					continue
				}
				any = true
				pr := proveAt(f, rt)
				if !pr.prove(newLin(c).add(pr.lin(v), -1)) {
					okAll = false
				}
			}
		}
		if okAll && any {
			tableBoundMemo[f] = c
			return c, true
		}
	}
	return 0, false
}

// phiLenLowerBound: the smallest, over the incoming edges of a merge φ of strings or slices, of a constant lower
// bound on the incoming value's length that holds on that edge: the length of a constant string, or 1 when the edge
// is only taken where the value was found non-empty (x != "", len(x) != 0, len(x) > 0 — as a guard dominating the
// predecessor, or as the very branch that leads into the φ's block).
func phiLenLowerBound(ph *ssa.Phi) (int64, bool) {
	b := ph.Block()
	fn := b.Parent()
	best := int64(-1)
	for i, ev := range ph.Edges {
		if i >= len(b.Preds) {
			return 0, false
		}
		lb := int64(0)
		if c, ok := ev.(*ssa.Const); ok && c.Value != nil && c.Value.Kind() == constant.String {
			lb = int64(len(constant.StringVal(c.Value)))
		} else {
			pred := b.Preds[i]
			var gs []guardInfo
			if li := lastInstr(pred); li != nil {
				gs = dominatingGuards(fn, nil, li)
				if iff, ok := li.(*ssa.If); ok && pred.Succs[0] != pred.Succs[1] {
					v, flip := stripNot(iff.Cond)
					taken := pred.Succs[0] == b
					gs = append(gs, guardInfo{If: iff, True: taken, Cond: v, Pos: taken != flip})
				}
			}
			for _, g := range gs {
				if nonEmptyGuard(g, ev) {
					lb = 1
				}
			}
		}
		if best < 0 || lb < best {
			best = lb
		}
	}
	return best, best >= 0
}

// nonEmptyGuard: does the guard say that v (a string or slice) is not empty?
func nonEmptyGuard(g guardInfo, v ssa.Value) bool {
	bo, ok := g.Cond.(*ssa.BinOp)
	if !ok {
		return false
	}
	isV := func(x ssa.Value) bool { return x == v }
	isLenV := func(x ssa.Value) bool {
		c, ok := x.(*ssa.Call)
		if !ok {
			return false
		}
		bi, ok := c.Call.Value.(*ssa.Builtin)
		return ok && bi.Name() == "len" && len(c.Call.Args) == 1 && c.Call.Args[0] == v
	}
	emptyStr := func(x ssa.Value) bool {
		c, ok := x.(*ssa.Const)
		return ok && c.Value != nil && c.Value.Kind() == constant.String && constant.StringVal(c.Value) == ""
	}
	zero := func(x ssa.Value) bool { n, ok := constInt(x); return ok && n == 0 }
	switch bo.Op {
	case token.EQL: // holds = empty; the guard must say it does NOT hold
		if (isV(bo.X) && emptyStr(bo.Y)) || (isV(bo.Y) && emptyStr(bo.X)) || (isLenV(bo.X) && zero(bo.Y)) || (isLenV(bo.Y) && zero(bo.X)) {
			return !g.Pos
		}
	case token.NEQ:
		if (isV(bo.X) && emptyStr(bo.Y)) || (isV(bo.Y) && emptyStr(bo.X)) || (isLenV(bo.X) && zero(bo.Y)) || (isLenV(bo.Y) && zero(bo.X)) {
			return g.Pos
		}
	case token.GTR: // len(v) > 0
		if isLenV(bo.X) && zero(bo.Y) {
			return g.Pos
		}
	case token.LSS: // 0 < len(v)
		if isLenV(bo.Y) && zero(bo.X) {
			return g.Pos
		}
	}
	return false
}

var tableFieldMemo = map[string][2]int64{}

// tableFieldRange: v is an integer field of an element of a package-level table (slice or array of structs) that only
// its initialiser ever assigns; the range of that field over the table's rows, as the evaluated initialiser gives it.
func tableFieldRange(v ssa.Value) (lo, hi int64, ok bool) {
	var elem ssa.Value
	var st *types.Struct
	field := -1
	switch t := v.(type) {
	case *ssa.Field:
		elem, field = t.X, t.Field
		st, _ = t.X.Type().Underlying().(*types.Struct)
	case *ssa.UnOp:
		if t.Op != token.MUL {
			return 0, 0, false
		}
		fa, isFA := t.X.(*ssa.FieldAddr)
		if !isFA {
			return 0, 0, false
		}
		elem, field = fa.X, fa.Field
		if pt, isP := fa.X.Type().Underlying().(*types.Pointer); isP {
			st, _ = pt.Elem().Underlying().(*types.Struct)
		}
	default:
		return 0, 0, false
	}
	if st == nil || field < 0 || !isIntType(v.Type()) {
		return 0, 0, false
	}
	// the element: table[i] as a value (load of an IndexAddr) or as an address (the IndexAddr itself); a range
	// variable is a local that is stored the element once per iteration
	if a, isAlloc := elem.(*ssa.Alloc); isAlloc {
		var only ssa.Value
		n := 0
		for _, r := range *a.Referrers() {
			if st, isSt := r.(*ssa.Store); isSt && st.Addr == ssa.Value(a) {
				only = st.Val
				n++
			}
		}
		if n != 1 {
			return 0, 0, false
		}
		elem = only
	}
	var ia *ssa.IndexAddr
	switch e := elem.(type) {
	case *ssa.UnOp:
		if e.Op == token.MUL {
			ia, _ = e.X.(*ssa.IndexAddr)
		}
	case *ssa.IndexAddr:
		ia = e
	}
	if ia == nil {
		return 0, 0, false
	}
	var g *ssa.Global
	switch x := ia.X.(type) {
	case *ssa.UnOp:
		if x.Op == token.MUL {
			g, _ = x.X.(*ssa.Global)
		}
	case *ssa.Global:
		g = x
	}
	if g == nil || g.Pkg == nil || !isModPkg(g.Pkg.Pkg.Path()) || theProgram == nil || assignedOutsideInit(g) {
		return 0, 0, false
	}
	name := st.Field(field).Name()
	key := g.Pkg.Pkg.Path() + "." + g.Name() + "." + name
	if r, have := tableFieldMemo[key]; have {
		return r[0], r[1], r[0] <= r[1]
	}
	tableFieldMemo[key] = [2]int64{1, 0}
	val, und := evalGlobal(theProgram, strings.TrimPrefix(strings.TrimPrefix(g.Pkg.Pkg.Path(), modPath), "/"), g.Name())
	sl, isSl := val.(avals)
	if !isSl || und != "" || len(sl.cells) == 0 {
		return 0, 0, false
	}
	first := true
	for _, c := range sl.cells {
		n, isInt := c.f[name].(aint)
		if !isInt {
			return 0, 0, false
		}
		if first || int64(n) < lo {
			lo = int64(n)
		}
		if first || int64(n) > hi {
			hi = int64(n)
		}
		first = false
	}
	tableFieldMemo[key] = [2]int64{lo, hi}
	return lo, hi, true
}

// condUpdateFact: the "grow if too small" idiom on a slice kept in memory —
//
//	if len(x.buf) < n { x.buf = make([]T, n) }
//	… x.buf[:n]
//
// leaves len(x.buf) >= n at the join whichever way the branch went: on one edge the guard says so, on the other the
// slice was just made with that length.  No single guard dominates the use and the slice lives in a field (no φ), so
// the fact is derived here: load is a load of the field after such a diamond with no write to it in between.
func (p *prover) condUpdateFact(e linExpr, load *ssa.UnOp) {
	key := addrKey(p.canon0(load.X), 0)
	if key == "" || load.Block() == nil {
		return
	}
	fn := p.fn
	lenOfKey := func(v ssa.Value) *ssa.UnOp {
		c, ok := v.(*ssa.Call)
		if !ok || calleeName(&c.Call) != "builtin.len" || len(c.Call.Args) != 1 {
			return nil
		}
		l0, ok := c.Call.Args[0].(*ssa.UnOp)
		if !ok || l0.Op != token.MUL || addrKey(p.canon0(l0.X), 0) != key {
			return nil
		}
		return l0
	}
	for _, b := range fn.Blocks {
		if len(b.Instrs) == 0 || len(b.Succs) != 2 {
			continue
		}
		iff, ok := b.Instrs[len(b.Instrs)-1].(*ssa.If)
		if !ok {
			continue
		}
		bo, ok := iff.Cond.(*ssa.BinOp)
		if !ok {
			continue
		}
		var l0 *ssa.UnOp
		var n ssa.Value
		switch bo.Op {
		case token.LSS: // len(buf) < n
			l0, n = lenOfKey(bo.X), bo.Y
		case token.GTR: // n > len(buf)
			l0, n = lenOfKey(bo.Y), bo.X
		}
		if l0 == nil {
			continue
		}
		upd, join := b.Succs[0], b.Succs[1]
		if len(upd.Succs) != 1 || upd.Succs[0] != join || len(upd.Preds) != 1 {
			continue
		}
		if !join.Dominates(load.Block()) && join != load.Block() {
			continue
		}
		stored := false
		for _, in := range upd.Instrs {
			st, ok := in.(*ssa.Store)
			if !ok {
				if mayWrite(in) {
					if _, isCall := in.(*ssa.Call); isCall {
						stored = false
						break
					}
				}
				continue
			}
			if addrKey(p.canon0(st.Addr), 0) != key {
				continue
			}
			mk, ok := st.Val.(*ssa.MakeSlice)
			if !ok || mk.Len != n {
				stored = false
				break
			}
			stored = true
		}
		if !stored {
			continue
		}
		first := firstInstr(join)
		if first == nil || (first != ssa.Instruction(load) && !p.cleanBetween(first, load, key)) {
			continue
		}
		if !p.cleanBetween(l0, iff, key) {
			continue
		}
		p.ge(e, p.lin(n))
		return
	}
}

// tableRowFact: v is an integer field of the row a package-level table holds for the key k — `layouts[len(args)].user`
// — and the table (an array, slice or map with integer keys that only its initialiser assigns) is such that in every
// row the field stays within a fixed distance of the row's own key: then lo <= v - k <= hi.  This is what makes
// "argument positions by argument count" tables provable: every row i has positions below i.  For a map the row has to
// be known to exist at the site (the comma-ok result is tested on the way there), or the zero row would count too.
func (p *prover) tableRowFact(e linExpr, v ssa.Value) {
	if !isIntType(v.Type()) || theProgram == nil {
		return
	}
	var elem ssa.Value
	var st *types.Struct
	field := -1
	switch t := v.(type) {
	case *ssa.Field:
		elem, field = t.X, t.Field
		st, _ = t.X.Type().Underlying().(*types.Struct)
	case *ssa.UnOp:
		if t.Op != token.MUL {
			return
		}
		fa, ok := t.X.(*ssa.FieldAddr)
		if !ok {
			return
		}
		elem, field = fa.X, fa.Field
		if pt, ok := fa.X.Type().Underlying().(*types.Pointer); ok {
			st, _ = pt.Elem().Underlying().(*types.Struct)
		}
	default:
		return
	}
	if st == nil || field < 0 {
		return
	}
	// a local holding the row: stored once
	if a, ok := elem.(*ssa.Alloc); ok {
		var only ssa.Value
		n := 0
		for _, r := range *a.Referrers() {
			if s, ok := r.(*ssa.Store); ok && s.Addr == ssa.Value(a) {
				only = s.Val
				n++
			}
		}
		if n != 1 {
			return
		}
		elem = only
	}
	var g *ssa.Global
	var k ssa.Value
	var okFlag ssa.Value // for maps: the comma-ok result that has to be known true
	globalOf := func(x ssa.Value) *ssa.Global {
		switch t := x.(type) {
		case *ssa.UnOp:
			if t.Op == token.MUL {
				gg, _ := t.X.(*ssa.Global)
				return gg
			}
		case *ssa.Global:
			return t
		}
		return nil
	}
	switch t := elem.(type) {
	case *ssa.Extract:
		lk, ok := t.Tuple.(*ssa.Lookup)
		if !ok || !lk.CommaOk || t.Index != 0 {
			return
		}
		g, k = globalOf(lk.X), lk.Index
		for _, r := range *lk.Referrers() {
			if ex, ok := r.(*ssa.Extract); ok && ex.Index == 1 {
				okFlag = ex
			}
		}
		if okFlag == nil {
			return
		}
	case *ssa.UnOp:
		if t.Op != token.MUL {
			return
		}
		ia, ok := t.X.(*ssa.IndexAddr)
		if !ok {
			return
		}
		g, k = globalOf(ia.X), ia.Index
	case *ssa.IndexAddr:
		g, k = globalOf(t.X), t.Index
	default:
		return
	}
	if g == nil || k == nil || g.Pkg == nil || !isModPkg(g.Pkg.Pkg.Path()) || assignedOutsideInit(g) || !isIntType(k.Type()) {
		return
	}
	if okFlag != nil {
		known := false
		if p.at != nil {
			for _, gd := range dominatingGuards(p.fn, nil, p.at) {
				c, neg := stripNot(gd.Cond)
				if c == okFlag && gd.Pos != neg {
					known = true
				}
			}
		}
		if !known {
			return
		}
	}
	name := st.Field(field).Name()
	rows := tableRows(g)
	if len(rows) == 0 {
		return
	}
	first := true
	var lo, hi int64
	for key, row := range rows {
		f, ok := row[name]
		if !ok {
			return
		}
		d := f - key
		if first || d < lo {
			lo = d
		}
		if first || d > hi {
			hi = d
		}
		first = false
	}
	kl := p.lin(k)
	p.ge(e, kl.add(newLin(lo), 1)) // v >= k + lo
	p.ge(kl.add(newLin(hi), 1), e) // v <= k + hi
	// and the plain ranges: of the field over the rows, and (for a map whose row is known to exist) of the key
	first = true
	var fmin, fmax, kmin, kmax int64
	for key, row := range rows {
		f := row[name]
		if first || f < fmin {
			fmin = f
		}
		if first || f > fmax {
			fmax = f
		}
		if first || key < kmin {
			kmin = key
		}
		if first || key > kmax {
			kmax = key
		}
		first = false
	}
	p.ge(e, newLin(fmin))
	p.ge(newLin(fmax), e)
	if okFlag != nil {
		p.ge(kl, newLin(kmin))
		p.ge(newLin(kmax), kl)
	}
}

var tableRowsMemo = map[*ssa.Global]map[int64]map[string]int64{}

// tableRows: the integer fields of every row of an init-only package-level table, by integer key (map key or index).
func tableRows(g *ssa.Global) map[int64]map[string]int64 {
	if r, ok := tableRowsMemo[g]; ok {
		return r
	}
	tableRowsMemo[g] = nil
	out := map[int64]map[string]int64{}
	rel := strings.TrimPrefix(strings.TrimPrefix(g.Pkg.Pkg.Path(), modPath), "/")
	if val, und := evalGlobal(theProgram, rel, g.Name()); und == "" && val != nil {
		switch t := val.(type) {
		case amap:
			for ks, v := range t.m.vals {
				var key int64
				if _, err := fmt.Sscanf(ks, "i:%d", &key); err != nil {
					return nil
				}
				row := map[string]int64{}
				if sv, ok := v.(astruct); ok {
					for fn, fv := range sv.f {
						if n, ok := fv.(aint); ok {
							row[fn] = int64(n)
						}
					}
				}
				out[key] = row
			}
		case avals:
			for i, c := range t.cells {
				row := map[string]int64{}
				for fn, fv := range c.f {
					if n, ok := fv.(aint); ok {
						row[fn] = int64(n)
					}
				}
				out[int64(i)] = row
			}
		}
	}
	if len(out) == 0 {
		// an array literal is filled in element by element
		if o := (&absEnv{globals: map[string]*aobj{}}).globalInit(g); o != nil {
			for path, fv := range o.f {
				var i int64
				var fn string
				if n, _ := fmt.Sscanf(path, "#%d.%s", &i, &fn); n == 2 {
					if v, ok := fv.(aint); ok {
						if out[i] == nil {
							out[i] = map[string]int64{}
						}
						out[i][fn] = int64(v)
					}
				}
			}
			// rows the literal leaves out are zero rows: an array has all its indices
			if at, ok := underlying(g.Type().(*types.Pointer).Elem()).(*types.Array); ok {
				for i := int64(0); i < at.Len(); i++ {
					if out[i] == nil {
						out[i] = map[string]int64{}
					}
				}
			}
		}
	}
	// fields a row does not mention are zero
	names := map[string]bool{}
	for _, row := range out {
		for n := range row {
			names[n] = true
		}
	}
	for _, row := range out {
		for n := range names {
			if _, ok := row[n]; !ok {
				row[n] = 0
			}
		}
	}
	tableRowsMemo[g] = out
	return out
}

var fieldNeverEmptyMemo = map[string]bool{}

// fieldNeverEmpty: the slice field fa addresses — a field of an unexported struct type of the module (a parser's
// carrier struct, say) — holds at least one element whenever it is read, because that is true of every value ever
// stored in it anywhere in the module: every allocation of the struct stores into the field, right away, a literal or
// made slice of at least one element, and every other store into the field stores an append onto the field's own
// value (or again a value of at least one element).  The struct is never assigned as a whole and the field's address
// is used for nothing but loads and stores.
func fieldNeverEmpty(fa *ssa.FieldAddr) bool {
	if theProgram == nil {
		return false
	}
	pt, ok := fa.X.Type().Underlying().(*types.Pointer)
	if !ok {
		return false
	}
	named, ok := pt.Elem().(*types.Named)
	if !ok || named.Obj().Exported() || named.Obj().Pkg() == nil || !isModPkg(named.Obj().Pkg().Path()) {
		return false
	}
	st, ok := named.Underlying().(*types.Struct)
	if !ok || fa.Field >= st.NumFields() {
		return false
	}
	if _, isSlice := st.Field(fa.Field).Type().Underlying().(*types.Slice); !isSlice {
		return false
	}
	key := named.String() + "#" + st.Field(fa.Field).Name()
	if v, ok := fieldNeverEmptyMemo[key]; ok {
		return v
	}
	fieldNeverEmptyMemo[key] = false
	isT := func(t types.Type) bool {
		if t == nil {
			return false
		}
		n, ok := types.Unalias(t).(*types.Named)
		return ok && n.Obj() == named.Obj()
	}
	sameField := func(x *ssa.FieldAddr) bool {
		p, ok := x.X.Type().Underlying().(*types.Pointer)
		return ok && isT(p.Elem()) && x.Field == fa.Field
	}
	var atLeastOne func(v ssa.Value, d int) bool
	atLeastOne = func(v ssa.Value, d int) bool {
		if d > 4 {
			return false
		}
		switch t := v.(type) {
		case *ssa.Slice:
			if t.Low == nil && t.High == nil {
				if a, ok := t.X.(*ssa.Alloc); ok {
					if arr, ok := a.Type().Underlying().(*types.Pointer).Elem().Underlying().(*types.Array); ok {
						return arr.Len() >= 1
					}
				}
			}
		case *ssa.MakeSlice:
			n, ok := constInt(t.Len)
			return ok && n >= 1
		case *ssa.Call:
			if calleeName(&t.Call) == "builtin.append" && len(t.Call.Args) == 2 {
				if atLeastOne(t.Call.Args[0], d+1) || atLeastOne(t.Call.Args[1], d+1) {
					return true
				}
				// append(x.f, …) onto the field itself keeps what it has
				if l, ok := t.Call.Args[0].(*ssa.UnOp); ok && l.Op == token.MUL {
					if x, ok := l.X.(*ssa.FieldAddr); ok && sameField(x) {
						return true
					}
				}
			}
		}
		return false
	}
	okAll := true
	nAlloc := 0
	for _, fn := range theProgram.ModFuncs() {
		allInstrs(fn, func(in ssa.Instruction) {
			if !okAll {
				return
			}
			switch t := in.(type) {
			case *ssa.Alloc:
				p, ok := t.Type().Underlying().(*types.Pointer)
				if !ok || !isT(p.Elem()) {
					return
				}
				nAlloc++
				// the field is stored into in the allocating block, and not read before that
				inited := false
				for _, x := range t.Block().Instrs {
					if st, ok := x.(*ssa.Store); ok {
						if f, ok := st.Addr.(*ssa.FieldAddr); ok && f.X == ssa.Value(t) && f.Field == fa.Field {
							inited = true
						}
					}
				}
				if !inited {
					okAll = false
				}
			case *ssa.Store:
				if isT(t.Val.Type()) {
					okAll = false // the struct assigned as a whole
					return
				}
				if f, ok := t.Addr.(*ssa.FieldAddr); ok && sameField(f) && !atLeastOne(t.Val, 0) {
					okAll = false
				}
			case *ssa.FieldAddr:
				if !sameField(t) {
					return
				}
				for _, r := range *t.Referrers() {
					switch u := r.(type) {
					case *ssa.Store:
						if u.Addr != ssa.Value(t) {
							okAll = false // the address stored somewhere
						}
					case *ssa.UnOp:
					default:
						okAll = false
					}
				}
			case *ssa.MakeInterface, *ssa.ChangeType:
			}
			// values of the struct type produced other than by allocation (zero values returned, copies)
			if v, ok := in.(ssa.Value); ok && isT(v.Type()) {
				if _, isLoad := in.(*ssa.UnOp); !isLoad {
					okAll = false
				}
			}
		})
	}
	fieldNeverEmptyMemo[key] = okAll && nAlloc > 0
	return fieldNeverEmptyMemo[key]
}

var fieldOnlyGrowsMemo = map[string]bool{}

// fieldOnlyGrows: the slice field fa addresses — an unexported field of a struct type of the module — is, once the
// struct exists, only ever stored an append onto its own current value (`x.f = append(x.f, …)` with the same x); the
// struct is never assigned as a whole and the field's address is only loaded and stored.  Its length never goes down.
func fieldOnlyGrows(fa *ssa.FieldAddr) bool {
	if theProgram == nil {
		return false
	}
	pt, ok := fa.X.Type().Underlying().(*types.Pointer)
	if !ok {
		return false
	}
	named, ok := types.Unalias(pt.Elem()).(*types.Named)
	if !ok || named.Obj().Pkg() == nil || !isModPkg(named.Obj().Pkg().Path()) {
		return false
	}
	st, ok := named.Underlying().(*types.Struct)
	if !ok || fa.Field >= st.NumFields() || st.Field(fa.Field).Exported() {
		return false
	}
	if _, isSlice := st.Field(fa.Field).Type().Underlying().(*types.Slice); !isSlice {
		return false
	}
	key := named.String() + "#" + st.Field(fa.Field).Name()
	if v, ok := fieldOnlyGrowsMemo[key]; ok {
		return v
	}
	fieldOnlyGrowsMemo[key] = false
	isT := func(t types.Type) bool {
		if t == nil {
			return false
		}
		n, ok := types.Unalias(t).(*types.Named)
		return ok && n.Obj() == named.Obj()
	}
	sameField := func(x *ssa.FieldAddr) bool {
		p, ok := x.X.Type().Underlying().(*types.Pointer)
		return ok && isT(p.Elem()) && x.Field == fa.Field
	}
	okAll := true
	for _, fn := range theProgram.ModFuncs() {
		allInstrs(fn, func(in ssa.Instruction) {
			if !okAll {
				return
			}
			switch t := in.(type) {
			case *ssa.Store:
				if isT(t.Val.Type()) {
					okAll = false
					return
				}
				f, ok := t.Addr.(*ssa.FieldAddr)
				if !ok || !sameField(f) {
					return
				}
				// a store into a freshly allocated struct (the literal that creates it) starts the object's life
				if _, fresh := f.X.(*ssa.Alloc); fresh {
					return
				}
				c, ok := t.Val.(*ssa.Call)
				if !ok || calleeName(&c.Call) != "builtin.append" || len(c.Call.Args) != 2 {
					okAll = false
					return
				}
				l, ok := c.Call.Args[0].(*ssa.UnOp)
				if !ok || l.Op != token.MUL {
					okAll = false
					return
				}
				src, ok := l.X.(*ssa.FieldAddr)
				if !ok || !sameField(src) || src.X != f.X {
					okAll = false
				}
			case *ssa.FieldAddr:
				if !sameField(t) {
					return
				}
				for _, r := range *t.Referrers() {
					switch u := r.(type) {
					case *ssa.Store:
						if u.Addr != ssa.Value(t) {
							okAll = false
						}
					case *ssa.UnOp:
					default:
						okAll = false
					}
				}
			}
		})
	}
	fieldOnlyGrowsMemo[key] = okAll
	return okAll
}

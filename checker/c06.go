package main

import (
	"go/token"
	"strings"

	"golang.org/x/tools/go/ssa"
)

func init() {
	register("C06", &propSpec{
		technique: "static analysis: all-paths normalisation flow of the SNI key, must-pass lookup ordering (sibling of the vhost ladder), constant/field-flow checks of TLS defaults, exact guard-atom set of the strict-SNI rejection",
		run:       runC06,
		decided: "R1 every per-listener config lookup keyed by the SNI name uses the normalised (trimmed, lower-cased) name, in the order exact → wildcard ladder (ascending, all labels kept, first hit returned) → catch-all → arbitrary fallback, and GetConfigForClient returns the matched config's own tls.Config; " +
			"R2 the default minimum version is a constant ≥ TLS 1.2 applied only when unset, TLS_FALLBACK_SCSV is prepended, and the standard tls.Config takes version range, client-auth policy and ALPN (with acme-tls/1) from the site's Config; " +
			"R3 MakeTLSConfig returns an error when two configs of one listener disagree on Enabled, and propagates assertConfigsCompatible's error for a repeated hostname; " +
			"R4 serveHTTP answers 403 under exactly {SNI matching not disabled, request arrived over TLS, site demands client certificates, SNI and Host differ ignoring case} — no further condition.",
		notDecided: "what crypto/tls negotiates from these settings; certificate selection inside certmagic; the arbitrary last-resort config when nothing matches.",
	})
}

const tlsPkg = "caskettls"

func runC06(r *Report, p *Program) {
	h := H{r, p}
	c06R1(h)
	c06R2(h)
	c06R3(h)
	c06R4(h)
}

func c06R1(h H) {
	r := h.r
	r.Rule("R1", "lookup order in configGroup.getConfig: lookups keyed by a value derived from ClientHelloInfo.ServerName use it only after normalizedName (ToLower∘TrimSpace) on every data path; the exact-name lookup precedes every strings.Join candidate; candidates keep all labels and the ladder ascends by one; a hit returns at once; the \"\" catch-all lookup is reachable only after the ladder is exhausted; GetConfigForClient returns getConfig(...).tlsConfig", 8)
	fn := h.fn("R1", tlsPkg, "configGroup.getConfig")
	if fn == nil {
		return
	}
	norm := func(v ssa.Value) bool { return isResultOf(v, 0, modPath+"/"+tlsPkg+".normalizedName") }
	fromSNI := func(v ssa.Value) bool {
		return derives(v, func(x ssa.Value) bool { return readsField(x, "ServerName") }, flowOpts{throughCalls: true})
	}
	var exact, cand, catchall []*ssa.Lookup
	allInstrs(fn, func(in ssa.Instruction) {
		l, ok := in.(*ssa.Lookup)
		if !ok || !strings.HasSuffix(l.X.Type().String(), "configGroup") {
			return
		}
		if s, isC := constString(l.Index); isC && s == "" {
			catchall = append(catchall, l)
			return
		}
		if jc, ok := l.Index.(*ssa.Call); ok && calleeName(&jc.Call) == "strings.Join" {
			cand = append(cand, l)
			whole := isResultOf(jc.Call.Args[0], 0, "strings.Split")
			sep, _ := constString(jc.Call.Args[1])
			splitOK := false
			if sc, ok := jc.Call.Args[0].(*ssa.Call); ok && len(sc.Call.Args) == 2 {
				s2, _ := constString(sc.Call.Args[1])
				splitOK = s2 == "." && allFlowsThrough(sc.Call.Args[0], norm, true)
			}
			r.Check(whole && sep == "." && splitOK, "R1", "caskettls.configGroup.getConfig/candidate-from-all-labels-of-normalised-name", l.Pos(),
				"each wildcard candidate joins the complete label list of the normalised SNI name", describe(l.Index))
			return
		}
		if fromSNI(l.Index) {
			exact = append(exact, l)
			r.Check(allFlowsThrough(l.Index, norm, true), "R1", "caskettls.configGroup.getConfig/exact-key-normalised", l.Pos(),
				"the SNI name is trimmed and lower-cased before it is used as a key (the map is keyed by lower-case host names)", describe(l.Index))
		}
	})
	if len(exact) == 0 || len(cand) == 0 || len(catchall) == 0 {
		r.Unresolve("R1", sprintf("getConfig: exact=%d candidate=%d catch-all=%d lookups recognised", len(exact), len(cand), len(catchall)))
		return
	}
	isExact := func(in ssa.Instruction) bool {
		for _, e := range exact {
			if in == ssa.Instruction(e) {
				return true
			}
		}
		return false
	}
	for _, c := range cand {
		r.Check(mustPass(fn, c, isExact), "R1", "caskettls.configGroup.getConfig/exact-before-wildcard", c.Pos(), "the exact name is tried before any wildcard candidate")
		if okv := commaOkOf(c); okv != nil {
			hit := guardEdges(fn, true, func(v ssa.Value) bool { return v == okv })
			more := false
			for e := range hit {
				s := e.From.Succs[e.Idx]
				chk := func(in ssa.Instruction) bool {
					if l, ok := in.(*ssa.Lookup); ok && strings.HasSuffix(l.X.Type().String(), "configGroup") {
						more = true
						return false
					}
					return true
				}
				if f := firstInstr(s); f != nil && chk(f) {
					reach(fn, f, cut{}, chk)
				}
			}
			r.Check(len(hit) > 0 && !more, "R1", "caskettls.configGroup.getConfig/first-hit-returns", c.Pos(), "the first matching candidate (fewest wildcard labels) wins")
		}
		hd, _ := loopOf(c.Block())
		for _, ca := range catchall {
			ok := hd != nil && onlyVia(fn, ca, map[edge]bool{{hd, 1}: true})
			r.Check(ok, "R1", "caskettls.configGroup.getConfig/catch-all-after-ladder", ca.Pos(), "the catch-all config is consulted only after every wildcard candidate failed")
		}
	}
	n := 0
	allInstrs(fn, func(in ssa.Instruction) {
		st, ok := in.(*ssa.Store)
		if !ok {
			return
		}
		ia, ok := st.Addr.(*ssa.IndexAddr)
		if !ok || !isResultOf(ia.X, 0, "strings.Split") {
			return
		}
		n++
		s, isStar := constString(st.Val)
		step, isInd := unitStep(ia.Index)
		r.Check(isStar && s == "*" && isInd && step == 1, "R1", "caskettls.configGroup.getConfig/wildcard-ladder", st.Pos(), "labels are replaced by \"*\" from the left, one more per iteration")
	})
	if n == 0 {
		r.Unresolve("R1", "getConfig: wildcard ladder store not found")
	}
	if nn := h.fn("R1", tlsPkg, "normalizedName"); nn != nil {
		okAll := true
		for _, rv := range returnValues(nn, 0) {
			if !allFlowsThrough(rv, func(v ssa.Value) bool { return isResultOf(v, 0, "strings.ToLower") }, false) {
				okAll = false
			}
		}
		r.Check(okAll, "R1", "caskettls.normalizedName/lowercases", nn.Pos(), "normalizedName lower-cases its argument")
	}
	if g := h.fn("R1", tlsPkg, "configGroup.GetConfigForClient"); g != nil {
		okAll := true
		for _, rv := range returnValues(g, 0) {
			if c, isC := rv.(*ssa.Const); isC && c.Value == nil {
				continue
			}
			p, root := fieldPath(rv)
			if p != "tlsConfig" || !isResultOf(root, 0, "("+modPath+"/"+tlsPkg+".configGroup).getConfig") {
				okAll = false
			}
		}
		r.Check(okAll, "R1", "caskettls.configGroup.GetConfigForClient/returns-matched-config", g.Pos(), "the handshake continues with the tls.Config of the config getConfig selected")
	}
}

func c06R2(h H) {
	r := h.r
	r.Rule("R2", "defaults: SetDefaultTLSParams stores a constant ≥ tls.VersionTLS12 into ProtocolMinVersion only on the ==0 edge, and prepends TLS_FALLBACK_SCSV; buildStandardTLSConfig copies ProtocolMinVersion→MinVersion, ProtocolMaxVersion→MaxVersion, ClientAuth→ClientAuth, ALPN→NextProtos and appends \"acme-tls/1\" to ALPN", 6)
	sd := h.fn("R2", tlsPkg, "SetDefaultTLSParams")
	if sd != nil {
		found := false
		allInstrs(sd, func(in ssa.Instruction) {
			st, ok := in.(*ssa.Store)
			if !ok {
				return
			}
			fa, ok := st.Addr.(*ssa.FieldAddr)
			if !ok || fieldName(fa.X.Type(), fa.Field) != "ProtocolMinVersion" {
				return
			}
			found = true
			c, isC := constInt(st.Val)
			unset := false
			for _, g := range guardAtoms(sd, nil, in) {
				x, kind, cst, ok := intCmp(g.Cond)
				if ok && kind == "eq" && cst == 0 && g.Pos && readsField(x, "ProtocolMinVersion") {
					unset = true
				}
			}
			r.Check(isC && c >= 0x0303 && unset, "R2", "caskettls.SetDefaultTLSParams/min-version-default", st.Pos(), "the default minimum protocol version is TLS 1.2 or higher and applies only when the site set none", sprintf("0x%04x", c))
		})
		if !found {
			r.Unresolve("R2", "SetDefaultTLSParams: store to ProtocolMinVersion not found")
		}
		scsv := false
		allInstrs(sd, func(in ssa.Instruction) {
			c, ok := in.(*ssa.Call)
			if !ok || calleeName(&c.Call) != "builtin.append" {
				return
			}
			// append([]uint16{SCSV}, Ciphers...)
			if derives(c.Call.Args[0], func(v ssa.Value) bool { n, ok := constInt(v); return ok && n == 0x5600 }, flowOpts{}) && readsFieldDeep(c.Call.Args[1], "Ciphers") {
				scsv = true
			}
		})
		r.Check(scsv, "R2", "caskettls.SetDefaultTLSParams/fallback-scsv-first", sd.Pos(), "TLS_FALLBACK_SCSV is placed in front of the cipher list")
	}
	bs := h.fn("R2", tlsPkg, "(*Config).buildStandardTLSConfig")
	if bs != nil {
		want := map[string]string{"MinVersion": "ProtocolMinVersion", "MaxVersion": "ProtocolMaxVersion", "ClientAuth": "ClientAuth", "NextProtos": "ALPN"}
		got := map[string]bool{}
		allInstrs(bs, func(in ssa.Instruction) {
			st, ok := in.(*ssa.Store)
			if !ok {
				return
			}
			fa, ok := st.Addr.(*ssa.FieldAddr)
			if !ok || !strings.HasSuffix(strings.TrimPrefix(fa.X.Type().String(), "*"), "crypto/tls.Config") {
				return
			}
			f := fieldName(fa.X.Type(), fa.Field)
			src, need := want[f]
			if !need {
				return
			}
			p, root := fieldPath(st.Val)
			_, isRecv := paramRoot(root)
			if p == src && isRecv {
				got[f] = true
			}
		})
		for f, src := range want {
			r.Check(got[f], "R2", "caskettls.(*Config).buildStandardTLSConfig/"+f+"←"+src, bs.Pos(), "the handshake setting "+f+" is taken from the site's own "+src)
		}
		acme := false
		allInstrs(bs, func(in ssa.Instruction) {
			c, ok := in.(*ssa.Call)
			if ok && calleeName(&c.Call) == "builtin.append" && readsFieldDeep(c.Call.Args[0], "ALPN") {
				if derives(c.Call.Args[1], func(v ssa.Value) bool { s, ok := constString(v); return ok && s == "acme-tls/1" }, flowOpts{}) {
					acme = true
				}
			}
		})
		r.Check(acme, "R2", "caskettls.(*Config).buildStandardTLSConfig/acme-alpn", bs.Pos(), "acme-tls/1 is offered so TLS-ALPN challenges can be solved")
	}
}

func readsFieldDeep(v ssa.Value, f string) bool {
	return derives(v, func(x ssa.Value) bool { return readsField(x, f) }, flowOpts{})
}

func c06R3(h H) {
	r := h.r
	r.Rule("R3", "mixing rejected: MakeTLSConfig returns a non-nil error on the edge where the Enabled fields of two configs of the same slice differ, returns without error only after the loop holding that comparison ran to exhaustion (empty list excepted), and returns an error on the non-nil edge of assertConfigsCompatible called for a hostname already present in the map", 2)
	fn := h.fn("R3", tlsPkg, "MakeTLSConfig")
	if fn == nil {
		return
	}
	// Enabled mismatch
	mism := map[edge]bool{}
	for _, i := range ifs(fn) {
		v, flip := stripNot(i.Cond)
		b, ok := v.(*ssa.BinOp)
		if !ok || (b.Op != token.NEQ && b.Op != token.EQL) {
			continue
		}
		if readsField(b.X, "Enabled") && readsField(b.Y, "Enabled") {
			differ := (b.Op == token.NEQ) != flip
			mism[condEdge{i, differ}.edge()] = true
		}
	}
	errRet := func(from *ssa.BasicBlock) bool {
		// every path from the block reaches a Return with a non-nil error before anything else returns nil
		ok := true
		found := false
		f := firstInstr(from)
		visit := func(in ssa.Instruction) bool {
			if rt, isR := in.(*ssa.Return); isR {
				found = true
				res := retResults(rt)
				if c, isC := res[len(res)-1].(*ssa.Const); isC && c.Value == nil {
					ok = false
				}
			}
			return true
		}
		if f != nil && visit(f) {
			reach(fn, f, cut{instr: func(in ssa.Instruction) bool { _, isR := in.(*ssa.Return); return isR }}, visit)
		}
		return ok && found
	}
	okM := len(mism) > 0
	for e := range mism {
		if !errRet(e.From.Succs[e.Idx]) {
			okM = false
		}
	}
	r.Check(okM, "R3", "caskettls.MakeTLSConfig/enabled-mismatch-is-error", fn.Pos(), "a listener whose sites disagree on TLS being enabled is rejected with an error")
	// the verdict "no error" is given only after EVERY config was compared: each return with a nil error, other
	// than the one for an empty list, is reachable only through the exhaustion edge of the loop that holds the
	// comparison (an early "first site is plain HTTP, nothing to do" return would accept HTTP-then-HTTPS)
	var cmpLoopHead *ssa.BasicBlock
	var cmpLoop map[*ssa.BasicBlock]bool
	for e := range mism {
		cmpLoopHead, cmpLoop = loopOf(e.From)
	}
	if cmpLoop == nil {
		r.Check(false, "R3", "caskettls.MakeTLSConfig/success-only-after-all-compared", fn.Pos(), "the Enabled comparison does not sit in a loop over the configs")
	} else {
		exhaust := map[edge]bool{}
		for _, e := range loopExitEdges(cmpLoop) {
			if e.From == cmpLoopHead {
				exhaust[e] = true
			}
		}
		n := 0
		for _, x := range exitsOf(fn) {
			rt, isR := x.(*ssa.Return)
			if !isR {
				continue
			}
			res := retResults(rt)
			if c, isC := res[len(res)-1].(*ssa.Const); !isC || c.Value != nil {
				// not a constant nil error: error returns (or a propagated error variable)
				if !isC {
					continue
				}
			}
			empty := false
			for _, g := range guardAtoms(fn, nil, rt) {
				if x, kind, c, ok := intCmp(g.Cond); ok && c == 0 {
					if call, isCall := x.(*ssa.Call); isCall && calleeName(&call.Call) == "builtin.len" {
						if _, isP := call.Call.Args[0].(*ssa.Parameter); isP && ((kind == "eq" && g.Pos) || (kind == "ne" && !g.Pos) || (kind == "gt" && !g.Pos)) {
							empty = true
						}
					}
				}
			}
			if empty {
				continue
			}
			n++
			r.Check(onlyVia(fn, rt, exhaust), "R3", sprintf("caskettls.MakeTLSConfig/success-only-after-all-compared#%d", n), rt.Pos(),
				"a result without error (TLS config or 'no TLS') is returned only after the loop compared every config of the listener with its predecessor")
		}
		if n == 0 {
			r.Unresolve("R3", "MakeTLSConfig: no success return found after the comparison loop")
		}
	}
	calls := callsTo(fn, "caskettls.assertConfigsCompatible")
	okC := len(calls) > 0
	for _, c := range calls {
		ne := nilEdges(fn, false, func(v ssa.Value) bool { return v == c.(ssa.Value) })
		if len(ne) == 0 {
			okC = false
		}
		for e := range ne {
			if !errRet(e.From.Succs[e.Idx]) {
				okC = false
			}
		}
		// called under "hostname already present"
		present := false
		for _, g := range guardAtoms(fn, nil, c) {
			if ex, ok := g.Cond.(*ssa.Extract); ok && ex.Index == 1 && g.Pos {
				if l, ok := ex.Tuple.(*ssa.Lookup); ok && readsFieldDeep(l.Index, "Hostname") {
					present = true
				}
			}
		}
		if !present {
			okC = false
		}
	}
	r.Check(okC, "R3", "caskettls.MakeTLSConfig/incompatible-same-name-is-error", fn.Pos(), "two configs for the same SNI name must be compatible, otherwise loading fails")
}

func c06R4(h H) {
	r := h.r
	r.Rule("R4", "strict SNI: in (*Server).serveHTTP the return of 403 lies behind exactly the atoms {!InsecureDisableSNIMatching, r.TLS != nil, ClientAuth != NoClientCert, case-folded SNI ≠ case-folded Host} (plus the site-was-found and not-an-ACME-challenge guards that precede it); an additional condition would let some mismatching requests through", 1)
	fn := h.fn("R4", hs, "(*Server).serveHTTP")
	if fn == nil {
		return
	}
	n := 0
	for _, rt := range realReturns(fn) {
		res := retResults(rt)
		if c, ok := constInt(res[0]); !ok || c != 403 {
			continue
		}
		n++
		var sni, tlsNN, ca, cmp bool
		var extra []string
		for _, g := range guardAtoms(fn, nil, rt) {
			d := describe(g.Cond)
			switch {
			case readsField(g.Cond, "InsecureDisableSNIMatching") && !g.Pos:
				sni = true
			case isNilCmpOfField(g, "TLS", false):
				tlsNN = true
			case isClientAuthCmp(g):
				ca = true
			case isSNIHostCmp(g):
				cmp = true
			case isVhostGuard(g), isChallengeGuard(g):
			default:
				extra = append(extra, d)
			}
		}
		r.Check(sni && tlsNN && ca && cmp && len(extra) == 0, "R4", "httpserver.(*Server).serveHTTP/strict-sni-403", rt.Pos(),
			"a site that demands client certificates refuses (403) every TLS request whose SNI differs from its Host, with no further escape condition", append([]string{sprintf("sni-matching-on:%v tls:%v client-auth:%v sni≠host:%v", sni, tlsNN, ca, cmp)}, extra...)...)
	}
	if n == 0 {
		r.Fail("R4", "httpserver.(*Server).serveHTTP/strict-sni-403", fn.Pos(), "no 403 return found: SNI/Host mismatches are served")
	}
}

func isNilCmpOfField(g guardInfo, field string, wantNil bool) bool {
	x, nilWhenTrue, ok := nilCmp(g.Cond)
	if !ok || !readsField(x, field) {
		return false
	}
	isNil := nilWhenTrue == g.Pos
	return isNil == wantNil
}

func isClientAuthCmp(g guardInfo) bool {
	b, ok := g.Cond.(*ssa.BinOp)
	if !ok {
		return false
	}
	if !(readsField(b.X, "ClientAuth") || readsField(b.Y, "ClientAuth")) {
		return false
	}
	var c int64
	var okc bool
	if c, okc = constInt(b.Y); !okc {
		c, okc = constInt(b.X)
	}
	if !okc || c != 0 {
		return false
	}
	// ClientAuth != NoClientCert holds on the taken edge
	return (b.Op == token.NEQ) == g.Pos
}

func isSNIHostCmp(g guardInfo) bool {
	fromSNI := func(v ssa.Value) bool { return readsFieldDeepCalls(v, "ServerName") }
	switch t := g.Cond.(type) {
	case *ssa.BinOp:
		if t.Op != token.NEQ && t.Op != token.EQL {
			return false
		}
		lower := func(v ssa.Value) bool { return isResultOf(v, 0, "strings.ToLower") }
		if !(lower(t.X) && lower(t.Y)) {
			return false
		}
		if !(fromSNI(t.X) || fromSNI(t.Y)) {
			return false
		}
		return (t.Op == token.NEQ) == g.Pos
	case *ssa.Call:
		if calleeName(&t.Call) != "strings.EqualFold" {
			return false
		}
		if !(fromSNI(t.Call.Args[0]) || fromSNI(t.Call.Args[1])) {
			return false
		}
		return !g.Pos
	}
	return false
}

func readsFieldDeepCalls(v ssa.Value, f string) bool {
	return derives(v, func(x ssa.Value) bool { return readsField(x, f) }, flowOpts{throughCalls: true})
}

func isVhostGuard(g guardInfo) bool {
	x, _, ok := nilCmp(g.Cond)
	return ok && isResultOf(x, 0, "(*"+modPath+"/"+hs+".vhostTrie).Match")
}

func isChallengeGuard(g guardInfo) bool {
	c, ok := g.Cond.(*ssa.Call)
	return ok && strings.Contains(calleeName(&c.Call), "HandleHTTPChallenge") && !g.Pos
}

package main

import (
	"fmt"
	"go/token"
	"go/types"
	"strings"

	"golang.org/x/tools/go/ssa"
)

func init() {
	register("C06", &propSpec{
		technique: "static analysis: all-paths normalisation flow of the SNI key, must-pass lookup ordering (sibling of the vhost ladder), constant/field-flow checks of TLS defaults, exact guard-atom set of the strict-SNI rejection; decision tables of configGroup.getConfig (opaque SNI labels) and SetDefaultTLSParams by abstract evaluation (E10)",
		run:       runC06,
		decided: "R1 the decision table of configGroup.getConfig (config groups of up to three over the keys exact, *.b.c, *.*.c, *.*.*, catch-all and two shorter patterns; SNI name in another letter case; opaque labels): the config of the most specific matching key is selected, an arbitrary one only when none matches; GetConfigForClient returns the matched config's own tls.Config; " +
			"R2 the decision table of SetDefaultTLSParams: a site-set minimum version is kept, otherwise a constant ≥ TLS 1.2 is installed, TLS_FALLBACK_SCSV is first in the cipher list; and the standard tls.Config takes version range, client-auth policy and ALPN (with acme-tls/1) from the site's Config; " +
			"R3 MakeTLSConfig returns an error when two configs of one listener disagree on Enabled, and propagates assertConfigsCompatible's error for a repeated hostname; " +
			"R4 serveHTTP answers 403 under exactly {SNI matching not disabled, request arrived over TLS, site demands client certificates, SNI and Host differ ignoring case} — no further condition. Since round 4: R5 makeTLSConfig shows every site of the listener to MakeTLSConfig (groups of 1-3 sites, shared host names) and returns its verdict. Since round 7: R6 same-name sites (all spellings of the catch-all) are compared before one replaces the other; R2 a site with a client certificate policy disables session tickets. Since round 8: R7 the protocol range, cipher list and client-certificate policy are stored only while their own subdirective is handled (a later tls directive does not reset them).",
		notDecided: "what crypto/tls negotiates from these settings; certificate selection inside certmagic; the arbitrary last-resort config when nothing matches.",
	})
}

const tlsPkg = "caskettls"

func runC06(r *Report, p *Program) {
	h := H{r, p}
	c06R1(h)
	c06R2(h)
	c06R3(h)
	c06R4(h)
	c06R5(h)
	c06R6(h)
	c06R7(h)
}

func c06R1(h H) {
	r := h.r
	r.Rule("R1", "SNI lookup as a decision table (E10, opaque labels): configGroup.getConfig, evaluated for every group of up to three configs (thorough tier: every group) over the keys {a.b.c, *.b.c, *.*.c, *.*.*, catch-all, *.c, b.c} and the SNI name A.B.C in another letter case, returns the config of the most specific matching key (exact, wildcard ladder with all labels kept, catch-all) and an arbitrary one only when none matches; normalizedName lower-cases; GetConfigForClient returns getConfig(...).tlsConfig", 3)
	// the lookup as a decision table (E10): config groups over the key universe {a.b.c, *.b.c, *.*.c, *.*.*, "" (catch-all),
	// *.c, b.c}, every subset of up to three keys, SNI name " A.B.C " in another letter case
	if fn := h.fn("R1", tlsPkg, "configGroup.getConfig"); fn != nil {
		lab := func(name string, cv int) atom { return atom{sym: name, cv: cv} }
		dot, star := atom{lit: "."}, atom{lit: "*"}
		type keyPat struct {
			name  string
			atoms []atom
			rank  int
		}
		lower := func(n string) atom { return atom{sym: n, lower: true} }
		keys := []keyPat{
			{"a.b.c", []atom{lower("A"), dot, lower("B"), dot, lower("C")}, 0},
			{"*.b.c", []atom{star, dot, lower("B"), dot, lower("C")}, 1},
			{"*.*.c", []atom{star, dot, star, dot, lower("C")}, 2},
			{"*.*.*", []atom{star, dot, star, dot, star}, 3},
			{"(catch-all)", nil, 4},
			{"*.c", []atom{star, dot, lower("C")}, -1},
			{"b.c", []atom{lower("B"), dot, lower("C")}, -1},
		}
		helloT := fn.Params[1].Type().(*types.Pointer).Elem()
		mapT := underlying(fn.Params[0].Type()).(*types.Map)
		cfgT := mapT.Elem().(*types.Pointer).Elem()
		var subsets [][]int
		subsets = append(subsets, nil)
		for a := range keys {
			subsets = append(subsets, []int{a})
			for b := a + 1; b < len(keys); b++ {
				subsets = append(subsets, []int{a, b})
				for c := b + 1; c < len(keys); c++ {
					subsets = append(subsets, []int{a, b, c})
				}
			}
		}
		if theTier == "thorough" {
			// every group over the key universe
			subsets = nil
			for m := 0; m < 1<<len(keys); m++ {
				var set []int
				for a := range keys {
					if m&(1<<a) != 0 {
						set = append(set, a)
					}
				}
				subsets = append(subsets, set)
			}
		}
		bad, nrun := "", 0
		for _, set := range subsets {
			if bad != "" {
				break
			}
			env := &absEnv{globals: map[string]*aobj{}, maxSteps: 50000}
			cfgs := map[int]*aobj{}
			mk := func() []aval {
				m := amap{&amapData{vals: map[string]aval{}, keys: map[string]aval{}, typ: mapT}}
				for _, k := range set {
					cfgs[k] = &aobj{name: "config:" + keys[k].name, typ: cfgT, f: map[string]aval{}, in: func(o *aobj, path string, t types.Type) aval { return aunk{"config field " + path} }}
					kv := mkStr(keys[k].atoms)
					ks, _ := keyOf(kv)
					m.m.vals[ks] = aptr{cfgs[k], ""}
					m.m.keys[ks] = kv
				}
				hello := &aobj{name: "hello", typ: helloT, f: map[string]aval{}, in: func(o *aobj, path string, t types.Type) aval {
					switch path {
					case "ServerName":
						return mkStr([]atom{lab("A", 2), dot, lab("B", 2), dot, lab("C", 2)})
					case "Conn":
						return anil{}
					}
					return aunk{"hello field " + path}
				}}
				return []aval{m, aptr{hello, ""}}
			}
			env.runForks(fn, mk, func(res aval, und string, _ int) bool {
				nrun++
				var names []string
				for _, k := range set {
					names = append(names, keys[k].name)
				}
				desc := "configs for {" + strings.Join(names, ", ") + "}, SNI A.B.C"
				if und != "" {
					bad = desc + ": undecided — " + und
					return false
				}
				best := -1
				for _, k := range set {
					if keys[k].rank >= 0 && (best < 0 || keys[k].rank < keys[best].rank) {
						best = k
					}
				}
				got := -2
				switch v := res.(type) {
				case anil:
					got = -1
				case aptr:
					for k, o := range cfgs {
						if v.obj == o {
							got = k
						}
					}
				}
				if best >= 0 {
					if got != best {
						g := "something else"
						if got >= 0 {
							g = keys[got].name
						} else if got == -1 {
							g = "no config"
						}
						bad = fmt.Sprintf("%s: the most specific matching config is %s, the code selects %s", desc, keys[best].name, g)
						return false
					}
					return true
				}
				// nothing matches: any config of the listener (or none when there is none) may serve as the fallback
				if _, isPtr := res.(aptr); !isPtr && got != -1 {
					bad = desc + ": unexpected result " + describeAval(res)
					return false
				}
				if len(set) == 0 && got != -1 {
					bad = desc + ": a config is returned although the listener has none"
					return false
				}
				return true
			})
		}
		r.Check(bad == "", "R1", "caskettls.configGroup.getConfig/table", fn.Pos(),
			"for every group of up to three configs over the key universe the handshake is governed by the config whose name matches the normalised SNI name most specifically (exact, then *.b.c, *.*.c, *.*.*, then the catch-all); shorter patterns never match",
			fmt.Sprintf("%d evaluations", nrun), bad)
	}
	if nn := h.fn("R1", tlsPkg, "normalizedName"); nn != nil {
		okAll := true
		for _, rv := range returnValues(nn, 0) {
			if !allFlowsThrough(rv, func(v ssa.Value) bool { return isResultOf(v, 0, "strings.ToLower") }, false) {
				okAll = false
			}
		}
		r.Check(okAll, "R1", "caskettls.normalizedName/lowercases", nn.Pos(), "normalizedName lower-cases its argument")
	}
	if g := h.fn("R1", tlsPkg, "configGroup.GetConfigForClient"); g != nil {
		okAll := true
		for _, rv := range returnValues(g, 0) {
			if c, isC := rv.(*ssa.Const); isC && c.Value == nil {
				continue
			}
			p, root := fieldPath(rv)
			if p != "tlsConfig" || !isResultOf(root, 0, "("+modPath+"/"+tlsPkg+".configGroup).getConfig") {
				okAll = false
			}
		}
		r.Check(okAll, "R1", "caskettls.configGroup.GetConfigForClient/returns-matched-config", g.Pos(), "the handshake continues with the tls.Config of the config getConfig selected")
	}
}

func c06R2(h H) {
	r := h.r
	r.Rule("R2", "defaults as a decision table (E10): SetDefaultTLSParams, evaluated for every combination of site-set/unset minimum version, maximum version and cipher list, keeps a set minimum and otherwise installs a constant not lower than TLS 1.2, and puts TLS_FALLBACK_SCSV in front of the cipher list; buildStandardTLSConfig copies ProtocolMinVersion→MinVersion, ProtocolMaxVersion→MaxVersion, ClientAuth→ClientAuth, ALPN→NextProtos, appends \"acme-tls/1\" to ALPN, and disables session tickets on every path on which the site has a client certificate policy", 6)
	if sd := h.fn("R2", tlsPkg, "SetDefaultTLSParams"); sd != nil {
		cfgT := sd.Params[0].Type().(*types.Pointer).Elem()
		bad, nrun := "", 0
		for m := 0; m < 8 && bad == ""; m++ {
			minSet, maxSet, ciphersSet := m&1 != 0, m&2 != 0, m&4 != 0
			env := &absEnv{globals: map[string]*aobj{}, maxSteps: 50000}
			env.cmp = func(a, b aval) (int, bool) {
				// a version or cipher a site configured is not the zero value
				if _, ok := a.(asym); ok {
					if z, ok := b.(aint); ok && z == 0 {
						return 1, true
					}
				}
				if _, ok := b.(asym); ok {
					if z, ok := a.(aint); ok && z == 0 {
						return -1, true
					}
				}
				return 0, false
			}
			env.ext = func(callee string, args []aval) (aval, bool) {
				if strings.HasSuffix(callee, "caskettls.getPreferredDefaultCiphers") {
					return newVals([]aval{asym{"defaultcipher"}}, types.Typ[types.Uint16]), true
				}
				return nil, false
			}
			var cfg *aobj
			mk := func() []aval {
				cfg = &aobj{name: "config", typ: cfgT, f: map[string]aval{}, in: func(o *aobj, path string, t types.Type) aval {
					switch path {
					case "ProtocolMinVersion":
						if minSet {
							return asym{"sitemin"}
						}
						return aint(0)
					case "ProtocolMaxVersion":
						if maxSet {
							return asym{"sitemax"}
						}
						return aint(0)
					case "Ciphers":
						if ciphersSet {
							return newVals([]aval{asym{"sitecipher"}}, types.Typ[types.Uint16])
						}
						return anil{}
					case "CurvePreferences":
						return anil{}
					}
					return aunk{"config field " + path}
				}}
				return []aval{aptr{cfg, ""}}
			}
			env.runForks(sd, mk, func(_ aval, und string, _ int) bool {
				nrun++
				desc := fmt.Sprintf("min set=%v, max set=%v, ciphers set=%v", minSet, maxSet, ciphersSet)
				if und != "" {
					bad = desc + ": undecided — " + und
					return false
				}
				gotMin := env.load(cfg, "ProtocolMinVersion")
				if minSet {
					if s, ok := gotMin.(asym); !ok || s.name != "sitemin" {
						bad = desc + ": the site's own minimum version is replaced by " + describeAval(gotMin)
						return false
					}
				} else if v, ok := gotMin.(aint); !ok || v < 0x0303 {
					bad = desc + ": the default minimum version is " + describeAval(gotMin) + ", lower than TLS 1.2 (0x0303)"
					return false
				}
				ciph, ok := env.load(cfg, "Ciphers").(avals)
				if !ok || len(ciph.cells) < 2 {
					bad = desc + ": cipher list after defaults: " + describeAval(env.load(cfg, "Ciphers"))
					return false
				}
				if v, ok := ciph.cells[0].f[""].(aint); !ok || v != 0x5600 {
					bad = desc + ": TLS_FALLBACK_SCSV is not first in the cipher list: " + describeAval(ciph)
					return false
				}
				wantC := "defaultcipher"
				if ciphersSet {
					wantC = "sitecipher"
				}
				if s, ok := ciph.cells[1].f[""].(asym); !ok || s.name != wantC {
					bad = desc + ": cipher list " + describeAval(ciph) + " does not continue with " + wantC
					return false
				}
				return true
			})
		}
		r.Check(bad == "", "R2", "caskettls.SetDefaultTLSParams/table", sd.Pos(),
			"the minimum protocol version stays the site's own when it set one and becomes a constant not lower than TLS 1.2 otherwise; TLS_FALLBACK_SCSV is placed in front of the site's (or the default) cipher list",
			fmt.Sprintf("%d evaluations", nrun), bad)
	}
	bs := h.fn("R2", tlsPkg, "(*Config).buildStandardTLSConfig")
	if bs != nil {
		want := map[string]string{"MinVersion": "ProtocolMinVersion", "MaxVersion": "ProtocolMaxVersion", "ClientAuth": "ClientAuth", "NextProtos": "ALPN"}
		got := map[string]bool{}
		allInstrs(bs, func(in ssa.Instruction) {
			st, ok := in.(*ssa.Store)
			if !ok {
				return
			}
			fa, ok := st.Addr.(*ssa.FieldAddr)
			if !ok || !strings.HasSuffix(strings.TrimPrefix(fa.X.Type().String(), "*"), "crypto/tls.Config") {
				return
			}
			f := fieldName(fa.X.Type(), fa.Field)
			src, need := want[f]
			if !need {
				return
			}
			p, root := fieldPath(st.Val)
			_, isRecv := paramRoot(root)
			if p == src && isRecv {
				got[f] = true
			}
		})
		for f, src := range want {
			r.Check(got[f], "R2", "caskettls.(*Config).buildStandardTLSConfig/"+f+"←"+src, bs.Pos(), "the handshake setting "+f+" is taken from the site's own "+src)
		}
		acme := false
		allInstrs(bs, func(in ssa.Instruction) {
			c, ok := in.(*ssa.Call)
			if ok && calleeName(&c.Call) == "builtin.append" && readsFieldDeep(c.Call.Args[0], "ALPN") {
				if derives(c.Call.Args[1], func(v ssa.Value) bool { s, ok := constString(v); return ok && s == "acme-tls/1" }, flowOpts{}) {
					acme = true
				}
			}
		})
		r.Check(acme, "R2", "caskettls.(*Config).buildStandardTLSConfig/acme-alpn", bs.Pos(), "acme-tls/1 is offered so TLS-ALPN challenges can be solved")
		// A resumed session is not verified against ClientCAs again, and the sites of a listener share its ticket keys:
		// a ticket from a site with another client CA would be honoured.  A site that asks for client certificates
		// issues and accepts no tickets: on every path from the "client certificates wanted" edge to a successful
		// return, true is stored into the built tls.Config's SessionTicketsDisabled.
		storesNoTickets := func(in ssa.Instruction) bool {
			st, ok := in.(*ssa.Store)
			if !ok {
				return false
			}
			fa, ok := st.Addr.(*ssa.FieldAddr)
			if !ok || !strings.HasSuffix(strings.TrimPrefix(fa.X.Type().String(), "*"), "crypto/tls.Config") || fieldName(fa.X.Type(), fa.Field) != "SessionTicketsDisabled" {
				return false
			}
			k, ok := st.Val.(*ssa.Const)
			return ok && k.Value != nil && k.Value.String() == "true"
		}
		var wanted []ssa.Instruction // first instructions of the edges on which a client certificate policy is set
		for _, b := range bs.Blocks {
			if len(b.Instrs) == 0 {
				continue
			}
			iff, ok := b.Instrs[len(b.Instrs)-1].(*ssa.If)
			if !ok {
				continue
			}
			c, neg := stripNot(iff.Cond)
			bo, ok := c.(*ssa.BinOp)
			if !ok || (bo.Op != token.NEQ && bo.Op != token.EQL) {
				continue
			}
			x, y := bo.X, bo.Y
			if _, isC := x.(*ssa.Const); isC {
				x, y = y, x
			}
			k, isC := y.(*ssa.Const)
			if p, _ := fieldPath(x); !isC || !strings.HasSuffix(p, "ClientAuth") || k.Value == nil || k.Value.String() != "0" {
				continue
			}
			idx := 0 // the edge on which ClientAuth != NoClientCert
			if (bo.Op == token.EQL) != neg {
				idx = 1
			}
			if f := firstInstr(b.Succs[idx]); f != nil {
				wanted = append(wanted, f)
			}
		}
		okTickets := len(wanted) > 0
		for _, w := range wanted {
			for _, rt := range realReturns(bs) {
				if k, isC := rt.Results[len(rt.Results)-1].(*ssa.Const); !isC || !k.IsNil() {
					continue // an error return: no config is built
				}
				if !storesNoTickets(w) && canReach(bs, w, rt, cut{instr: storesNoTickets}) {
					okTickets = false
				}
			}
		}
		r.Check(okTickets, "R2", "caskettls.(*Config).buildStandardTLSConfig/client-auth-no-session-tickets", bs.Pos(), "a site with a client certificate policy resumes no sessions by ticket (a resumed session is not checked against this site's client CAs, and the ticket keys are the listener's)", sprintf("%d client-certificate edge(s)", len(wanted)))
	}
}

func readsFieldDeep(v ssa.Value, f string) bool {
	return derives(v, func(x ssa.Value) bool { return readsField(x, f) }, flowOpts{})
}

func c06R3(h H) {
	r := h.r
	r.Rule("R3", "mixing rejected: MakeTLSConfig returns a non-nil error on the edge where the Enabled fields of two configs of the same slice differ, returns without error only after the loop holding that comparison ran to exhaustion (empty list excepted), and returns an error on the non-nil edge of assertConfigsCompatible called for a hostname already present in the map", 2)
	fn := h.fn("R3", tlsPkg, "MakeTLSConfig")
	if fn == nil {
		return
	}
	// Enabled mismatch
	mism := map[edge]bool{}
	for _, i := range ifs(fn) {
		v, flip := stripNot(i.Cond)
		b, ok := v.(*ssa.BinOp)
		if !ok || (b.Op != token.NEQ && b.Op != token.EQL) {
			continue
		}
		if readsField(b.X, "Enabled") && readsField(b.Y, "Enabled") {
			differ := (b.Op == token.NEQ) != flip
			mism[condEdge{i, differ}.edge()] = true
		}
	}
	errRet := func(from *ssa.BasicBlock) bool {
		// every path from the block reaches a Return with a non-nil error before anything else returns nil
		ok := true
		found := false
		f := firstInstr(from)
		visit := func(in ssa.Instruction) bool {
			if rt, isR := in.(*ssa.Return); isR {
				found = true
				res := retResults(rt)
				if c, isC := res[len(res)-1].(*ssa.Const); isC && c.Value == nil {
					ok = false
				}
			}
			return true
		}
		if f != nil && visit(f) {
			reach(fn, f, cut{instr: func(in ssa.Instruction) bool { _, isR := in.(*ssa.Return); return isR }}, visit)
		}
		return ok && found
	}
	okM := len(mism) > 0
	for e := range mism {
		if !errRet(e.From.Succs[e.Idx]) {
			okM = false
		}
	}
	r.Check(okM, "R3", "caskettls.MakeTLSConfig/enabled-mismatch-is-error", fn.Pos(), "a listener whose sites disagree on TLS being enabled is rejected with an error")
	// the verdict "no error" is given only after EVERY config was compared: each return with a nil error, other
	// than the one for an empty list, is reachable only through the exhaustion edge of the loop that holds the
	// comparison (an early "first site is plain HTTP, nothing to do" return would accept HTTP-then-HTTPS)
	var cmpLoopHead *ssa.BasicBlock
	var cmpLoop map[*ssa.BasicBlock]bool
	for e := range mism {
		cmpLoopHead, cmpLoop = loopOf(e.From)
	}
	if cmpLoop == nil {
		r.Check(false, "R3", "caskettls.MakeTLSConfig/success-only-after-all-compared", fn.Pos(), "the Enabled comparison does not sit in a loop over the configs")
	} else {
		exhaust := map[edge]bool{}
		for _, e := range loopExitEdges(cmpLoop) {
			if e.From == cmpLoopHead {
				exhaust[e] = true
			}
		}
		n := 0
		for _, x := range exitsOf(fn) {
			rt, isR := x.(*ssa.Return)
			if !isR {
				continue
			}
			res := retResults(rt)
			if c, isC := res[len(res)-1].(*ssa.Const); !isC || c.Value != nil {
				// not a constant nil error: error returns (or a propagated error variable)
				if !isC {
					continue
				}
			}
			empty := false
			for _, g := range guardAtoms(fn, nil, rt) {
				if x, kind, c, ok := intCmp(g.Cond); ok && c == 0 {
					if call, isCall := x.(*ssa.Call); isCall && calleeName(&call.Call) == "builtin.len" {
						if _, isP := call.Call.Args[0].(*ssa.Parameter); isP && ((kind == "eq" && g.Pos) || (kind == "ne" && !g.Pos) || (kind == "gt" && !g.Pos)) {
							empty = true
						}
					}
				}
			}
			if empty {
				continue
			}
			n++
			r.Check(onlyVia(fn, rt, exhaust), "R3", sprintf("caskettls.MakeTLSConfig/success-only-after-all-compared#%d", n), rt.Pos(),
				"a result without error (TLS config or 'no TLS') is returned only after the loop compared every config of the listener with its predecessor")
		}
		if n == 0 {
			r.Unresolve("R3", "MakeTLSConfig: no success return found after the comparison loop")
		}
	}
	calls := callsTo(fn, "caskettls.assertConfigsCompatible")
	okC := len(calls) > 0
	for _, c := range calls {
		ne := nilEdges(fn, false, func(v ssa.Value) bool { return v == c.(ssa.Value) })
		if len(ne) == 0 {
			okC = false
		}
		for e := range ne {
			if !errRet(e.From.Succs[e.Idx]) {
				okC = false
			}
		}
		// called under "hostname already present"
		present := false
		for _, g := range guardAtoms(fn, nil, c) {
			if ex, ok := g.Cond.(*ssa.Extract); ok && ex.Index == 1 && g.Pos {
				if l, ok := ex.Tuple.(*ssa.Lookup); ok && readsFieldDeep(l.Index, "Hostname") {
					present = true
				}
			}
		}
		if !present {
			okC = false
		}
	}
	r.Check(okC, "R3", "caskettls.MakeTLSConfig/incompatible-same-name-is-error", fn.Pos(), "two configs for the same SNI name must be compatible, otherwise loading fails")
}

func c06R4(h H) {
	r := h.r
	r.Rule("R4", "strict SNI: in (*Server).serveHTTP the return of 403 lies behind exactly the atoms {!InsecureDisableSNIMatching, r.TLS != nil, ClientAuth != NoClientCert, case-folded SNI ≠ case-folded Host} (plus the site-was-found and not-an-ACME-challenge guards that precede it); an additional condition would let some mismatching requests through", 1)
	fn := h.fn("R4", hs, "(*Server).serveHTTP")
	if fn == nil {
		return
	}
	n := 0
	for _, rt := range realReturns(fn) {
		res := retResults(rt)
		if c, ok := constInt(res[0]); !ok || c != 403 {
			continue
		}
		n++
		var sni, tlsNN, ca, cmp bool
		var extra []string
		for _, g := range guardAtoms(fn, nil, rt) {
			d := describe(g.Cond)
			switch {
			case readsField(g.Cond, "InsecureDisableSNIMatching") && !g.Pos:
				sni = true
			case isNilCmpOfField(g, "TLS", false):
				tlsNN = true
			case isClientAuthCmp(g):
				ca = true
			case isSNIHostCmp(g):
				cmp = true
			case isVhostGuard(g), isChallengeGuard(g):
			default:
				extra = append(extra, d)
			}
		}
		r.Check(sni && tlsNN && ca && cmp && len(extra) == 0, "R4", "httpserver.(*Server).serveHTTP/strict-sni-403", rt.Pos(),
			"a site that demands client certificates refuses (403) every TLS request whose SNI differs from its Host, with no further escape condition", append([]string{sprintf("sni-matching-on:%v tls:%v client-auth:%v sni≠host:%v", sni, tlsNN, ca, cmp)}, extra...)...)
	}
	if n == 0 {
		r.Fail("R4", "httpserver.(*Server).serveHTTP/strict-sni-403", fn.Pos(), "no 403 return found: SNI/Host mismatches are served")
	}
}

func isNilCmpOfField(g guardInfo, field string, wantNil bool) bool {
	x, nilWhenTrue, ok := nilCmp(g.Cond)
	if !ok || !readsField(x, field) {
		return false
	}
	isNil := nilWhenTrue == g.Pos
	return isNil == wantNil
}

func isClientAuthCmp(g guardInfo) bool {
	b, ok := g.Cond.(*ssa.BinOp)
	if !ok {
		return false
	}
	if !(readsField(b.X, "ClientAuth") || readsField(b.Y, "ClientAuth")) {
		return false
	}
	var c int64
	var okc bool
	if c, okc = constInt(b.Y); !okc {
		c, okc = constInt(b.X)
	}
	if !okc || c != 0 {
		return false
	}
	// ClientAuth != NoClientCert holds on the taken edge
	return (b.Op == token.NEQ) == g.Pos
}

func isSNIHostCmp(g guardInfo) bool {
	fromSNI := func(v ssa.Value) bool { return readsFieldDeepCalls(v, "ServerName") }
	switch t := g.Cond.(type) {
	case *ssa.BinOp:
		if t.Op != token.NEQ && t.Op != token.EQL {
			return false
		}
		lower := func(v ssa.Value) bool { return isResultOf(v, 0, "strings.ToLower") }
		if !(lower(t.X) && lower(t.Y)) {
			return false
		}
		if !(fromSNI(t.X) || fromSNI(t.Y)) {
			return false
		}
		return (t.Op == token.NEQ) == g.Pos
	case *ssa.Call:
		if calleeName(&t.Call) != "strings.EqualFold" {
			return false
		}
		if !(fromSNI(t.Call.Args[0]) || fromSNI(t.Call.Args[1])) {
			return false
		}
		return !g.Pos
	}
	return false
}

func readsFieldDeepCalls(v ssa.Value, f string) bool {
	return derives(v, func(x ssa.Value) bool { return readsField(x, f) }, flowOpts{throughCalls: true})
}

func isVhostGuard(g guardInfo) bool {
	x, _, ok := nilCmp(g.Cond)
	return ok && isResultOf(x, 0, "(*"+modPath+"/"+hs+".vhostTrie).Match")
}

func isChallengeGuard(g guardInfo) bool {
	c, ok := g.Cond.(*ssa.Call)
	return ok && strings.Contains(calleeName(&c.Call), "HandleHTTPChallenge") && !g.Pos
}

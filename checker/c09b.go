package main

import (
	"fmt"
	"go/types"
	"strings"

	"golang.org/x/tools/go/ssa"
)

// execTraces: executeDirectives as traces (E10).  Three directives in list order d1, d2, d3; two server blocks (block 0
// with keys k0a, k0b uses d3 and d1, block 1 with key k1 uses d2 and d1 — written in that order in the file); the
// directives' setup functions and the parsing callbacks are oracles (each failing in turn); justValidate true and false.
// Specification: setup calls happen directive by directive in list order, within a directive block by block, within a
// block key by key, only for blocks that use the directive; the first failure is returned and nothing runs after it;
// the parsing callbacks of a directive run after its last block, and only when not validating; the setup calls are the
// same whether validating or not.
type execTraceResult struct {
	order    string
	validate string
	other    string
	n        int
}

var execTraceMemo = map[*Program]*execTraceResult{}

func execTraces(h H) *execTraceResult {
	if m, ok := execTraceMemo[h.p]; ok {
		return m
	}
	res := &execTraceResult{}
	execTraceMemo[h.p] = res
	fn := h.p.Func("", "executeDirectives")
	if fn == nil || len(fn.Params) != 5 {
		res.other = "casket.executeDirectives(inst, filename, directives, sblocks, justValidate) not found"
		return res
	}
	instT := fn.Params[0].Type().(*types.Pointer).Elem()
	sbT := underlying(fn.Params[3].Type()).(*types.Slice).Elem()
	var tokMapT *types.Map
	var tokT types.Type = types.Typ[types.Int]
	if st, ok := underlying(sbT).(*types.Struct); ok {
		for i := 0; i < st.NumFields(); i++ {
			if st.Field(i).Name() == "Tokens" {
				tokMapT, _ = underlying(st.Field(i).Type()).(*types.Map)
			}
		}
	}
	if tokMapT != nil {
		if sl, ok := underlying(tokMapT.Elem()).(*types.Slice); ok {
			tokT = sl.Elem()
		}
	}
	var cbOuterT, cbInnerT *types.Map
	var cbElemT types.Type = types.Typ[types.Int]
	if pk := h.p.Pkg(""); pk != nil {
		if g, ok := pk.Members["parsingCallbacks"].(*ssa.Global); ok {
			cbOuterT, _ = underlying(g.Type().(*types.Pointer).Elem()).(*types.Map)
			if cbOuterT != nil {
				cbInnerT, _ = underlying(cbOuterT.Elem()).(*types.Map)
			}
			if cbInnerT != nil {
				if sl, ok := underlying(cbInnerT.Elem()).(*types.Slice); ok {
					cbElemT = sl.Elem()
				}
			}
		}
	}
	if cbOuterT == nil || cbInnerT == nil {
		res.other = "casket.parsingCallbacks: not a map of maps"
		return res
	}
	strT := types.Typ[types.String]
	uses := [][]string{{"d3", "d1"}, {"d2", "d1"}}
	keys := [][]string{{"k0a", "k0b"}, {"k1"}}
	dirs := []string{"d1", "d2", "d3"}
	// the full specified trace
	var full []string
	for _, d := range dirs {
		for b := range uses {
			used := false
			for _, u := range uses[b] {
				used = used || u == d
			}
			if !used {
				continue
			}
			for _, k := range keys[b] {
				full = append(full, fmt.Sprintf("setup %s block%d %s", d, b, k))
			}
		}
		if d == "d2" {
			full = append(full, "callback after d2")
		}
	}
	traceOf := func(justValidate bool, failAt int) ([]string, bool) {
		// specification for a run failing at the failAt-th step (‑1: none); returns the trace and whether it fails
		var out []string
		i := 0
		for _, s := range full {
			if strings.HasPrefix(s, "callback") && justValidate {
				continue
			}
			out = append(out, s)
			if i == failAt {
				return out, true
			}
			i++
		}
		return out, false
	}
	for _, jv := range []bool{false, true} {
		nsteps := len(full)
		if jv {
			nsteps--
		}
		for failAt := -1; failAt < nsteps; failAt++ {
			res.n++
			var trace []string
			step := 0
			errObj := aiface{aptr{&aobj{name: "err:setup failed", typ: types.Typ[types.Int], f: map[string]aval{}}, ""}, types.Typ[types.Int]}
			outcome := func() aval {
				defer func() { step++ }()
				if step == failAt {
					return errObj
				}
				return anil{}
			}
			cbs := amap{&amapData{vals: map[string]aval{}, keys: map[string]aval{}, typ: cbOuterT}}
			inner := amap{&amapData{vals: map[string]aval{}, keys: map[string]aval{}, typ: cbInnerT}}
			inner.m.vals["s:d2"] = newVals([]aval{acb{"after:d2"}}, cbElemT)
			inner.m.keys["s:d2"] = astr("d2")
			cbs.m.vals["s:http"] = inner
			cbs.m.keys["s:http"] = astr("http")
			env := &absEnv{noFork: true, maxSteps: 600000, globals: map[string]*aobj{
				"parsingCallbacks": {name: "parsingCallbacks", typ: types.Typ[types.Int], f: map[string]aval{"": cbs}},
			}}
			env.ext = func(callee string, args []aval) (aval, bool) {
				switch {
				case strings.HasSuffix(callee, "casket.DirectiveAction"):
					d, _ := args[1].(astr)
					return atuple{acb{"setup:" + string(d)}, anil{}}, true
				case strings.HasPrefix(callee, "callback:setup:"):
					d := strings.TrimPrefix(callee, "callback:setup:")
					blk, key := "?", "?"
					if c, ok := args[0].(aptr); ok {
						if v, ok := env.load(c.obj, joinPath(c.path, "ServerBlockIndex")).(aint); ok {
							blk = fmt.Sprint(int64(v))
						}
						if v, ok := env.load(c.obj, joinPath(c.path, "Key")).(astr); ok {
							key = string(v)
						}
					}
					trace = append(trace, fmt.Sprintf("setup %s block%s %s", d, blk, key))
					return outcome(), true
				case strings.HasPrefix(callee, "callback:after:"):
					trace = append(trace, "callback after "+strings.TrimPrefix(callee, "callback:after:"))
					return outcome(), true
				}
				return nil, false
			}
			var blocks []aval
			for b := range uses {
				toks := amap{&amapData{vals: map[string]aval{}, keys: map[string]aval{}, typ: tokMapT}}
				for _, d := range uses[b] {
					toks.m.vals["s:"+d] = newVals([]aval{astruct{map[string]aval{"File": astr("Casketfile"), "Line": aint(1), "Text": astr(d)}}}, tokT)
					toks.m.keys["s:"+d] = astr(d)
				}
				var ks []aval
				for _, k := range keys[b] {
					ks = append(ks, astr(k))
				}
				blocks = append(blocks, astruct{map[string]aval{"Keys": newVals(ks, strT), "Tokens": toks}})
			}
			var ds []aval
			for _, d := range dirs {
				ds = append(ds, astr(d))
			}
			inst := &aobj{name: "instance", typ: instT, f: map[string]aval{"serverType": astr("http")}}
			inst.in = func(o *aobj, path string, t types.Type) aval { return aunk{"instance field " + path} }
			r, und := env.run(fn, []aval{aptr{inst, ""}, astr("Casketfile"), newVals(ds, strT), newVals(blocks, sbT), abool(jv)})
			desc := fmt.Sprintf("justValidate=%v, failing step %d", jv, failAt)
			if und != "" {
				if res.other == "" {
					res.other = desc + ": undecided — " + und
				}
				continue
			}
			want, fails := traceOf(jv, failAt)
			_, retNil := r.(anil)
			if strings.Join(trace, "; ") != strings.Join(want, "; ") || retNil == fails {
				msg := fmt.Sprintf("%s: trace [%s], returns error=%v; specification: [%s], error=%v", desc, strings.Join(trace, "; "), !retNil, strings.Join(want, "; "), fails)
				if res.order == "" {
					res.order = msg
				}
			}
			if failAt == -1 {
				// the setup calls are the same with and without validation
				var setups []string
				for _, s := range trace {
					if strings.HasPrefix(s, "setup") {
						setups = append(setups, s)
					}
				}
				var wantSetups []string
				for _, s := range full {
					if strings.HasPrefix(s, "setup") {
						wantSetups = append(wantSetups, s)
					}
				}
				if strings.Join(setups, "; ") != strings.Join(wantSetups, "; ") && res.validate == "" {
					res.validate = fmt.Sprintf("justValidate=%v: setup calls [%s]; a real start and -validate must both make [%s]", jv, strings.Join(setups, "; "), strings.Join(wantSetups, "; "))
				}
			}
		}
	}
	return res
}

package main

import (
	"fmt"
	"go/types"
	"strings"
)

// c18OfferTable (C18 R7): "clients that did not offer gzip receive identity-coded data", as a decision table of
// Gzip.ServeHTTP (E10).  The handler has one configuration without request filters and with one response filter; the
// request carries the Accept-Encoding lines of the case (⏎ separates lines).  The next handler is an oracle that
// records which writer it was handed: the server's own (identity) or something the middleware built around it.
// Specification, from RFC 9110 §12.5.3 as far as gzip is concerned: gzip is NOT offered when no line lists the coding
// gzip (or its alias x-gzip) as a token of its own, or lists it only with weight zero.  (Only that direction is a
// clause of the property; the two offering cases are there so that the table is known to see the compressing route.)
func c18OfferTable(h H) (bad string, n int) {
	fn := h.p.Func(gzPkg, "Gzip.ServeHTTP")
	if fn == nil {
		return "gzip.Gzip.ServeHTTP not found", 0
	}
	gT := fn.Params[0].Type()
	reqT := fn.Params[2].Type().(*types.Pointer).Elem()
	var cfgT, rfT, qfT types.Type
	if st, ok := underlying(gT).(*types.Struct); ok {
		for i := 0; i < st.NumFields(); i++ {
			if st.Field(i).Name() == "Configs" {
				if sl, ok := underlying(st.Field(i).Type()).(*types.Slice); ok {
					cfgT = sl.Elem()
				}
			}
		}
	}
	if cfgT == nil {
		return "gzip.Gzip: no Configs field", 0
	}
	if st, ok := underlying(cfgT).(*types.Struct); ok {
		for i := 0; i < st.NumFields(); i++ {
			if sl, ok := underlying(st.Field(i).Type()).(*types.Slice); ok {
				switch st.Field(i).Name() {
				case "ResponseFilters":
					rfT = sl.Elem()
				case "RequestFilters":
					qfT = sl.Elem()
				}
			}
		}
	}
	if rfT == nil || qfT == nil {
		return "gzip.Config: RequestFilters / ResponseFilters not found", 0
	}
	mapT, _ := types.Unalias(h.p.typeByName("net/http", "Header")).Underlying().(*types.Map)
	type cs struct {
		lines   string // "-" = no Accept-Encoding field at all
		offered bool
	}
	cases := []cs{
		{"gzip", true}, {"deflate, gzip", true},
		{"-", false}, {"", false}, {"identity", false}, {"br", false}, {"deflate, br;q=0.9", false},
		{"gzip;q=0", false}, {"gzip; q=0.0", false}, {"gzip;q=0.000, br", false}, {"br⏎gzip;q=0", false},
		{"sdch, notgzip", false}, {"gzipped", false}, {"bzip2, pack200-gzip", false},
	}
	for _, c := range cases {
		n++
		raw := &aobj{name: "the server's writer", typ: types.Typ[types.Int], f: map[string]aval{}}
		rawV := aiface{aptr{raw, ""}, types.Typ[types.Int]}
		wrapped := &aobj{name: "filter writer", typ: types.Typ[types.Int], f: map[string]aval{}}
		var handed []aval
		env := &absEnv{globals: map[string]*aobj{}, noFork: true, maxSteps: 100000}
		env.ext = func(callee string, args []aval) (aval, bool) {
			switch {
			case callee == "invoke:ServeHTTP":
				handed = append(handed, args[1])
				return atuple{aint(200), anil{}}, true
			case strings.HasSuffix(callee, "gzip.NewResponseFilterWriter"):
				return aptr{wrapped, ""}, true
			case strings.HasSuffix(callee, "gzip.getWriter"), strings.HasSuffix(callee, "gzip.putWriter"):
				return anil{}, true
			case strings.HasSuffix(callee, "DefaultErrorFunc"):
				return atuple{}, true
			}
			return nil, false
		}
		hm := amap{&amapData{vals: map[string]aval{}, keys: map[string]aval{}, typ: mapT}}
		if c.lines != "-" {
			var ls []aval
			for _, l := range strings.Split(c.lines, "⏎") {
				ls = append(ls, astr(l))
			}
			hm.m.vals["s:Accept-Encoding"] = newVals(ls, types.Typ[types.String])
			hm.m.keys["s:Accept-Encoding"] = astr("Accept-Encoding")
		}
		req := &aobj{name: "request", typ: reqT, f: map[string]aval{"Header": hm}}
		req.in = func(o *aobj, path string, t types.Type) aval { return aunk{"request field " + path} }
		filter := aiface{aptr{&aobj{name: "response filter", typ: types.Typ[types.Int], f: map[string]aval{}}, ""}, types.Typ[types.Int]}
		cfg := astruct{map[string]aval{"RequestFilters": newVals(nil, qfT), "ResponseFilters": newVals([]aval{filter}, rfT), "Level": aint(-1)}}
		g := astruct{map[string]aval{"Next": aiface{aptr{&aobj{name: "next", typ: types.Typ[types.Int], f: map[string]aval{}}, ""}, types.Typ[types.Int]}, "Configs": newVals([]aval{cfg}, cfgT)}}
		_, und := env.run(fn, []aval{g, rawV, aptr{req, ""}})
		desc := fmt.Sprintf("Accept-Encoding %q", strings.ReplaceAll(c.lines, "⏎", `" + "`))
		if c.lines == "-" {
			desc = "no Accept-Encoding field"
		}
		switch {
		case und != "":
			return desc + ": undecided — " + und, n
		case len(handed) != 1:
			return fmt.Sprintf("%s: the next handler runs %d times", desc, len(handed)), n
		}
		p, _ := ifaceVal(handed[0]).(aptr)
		identity := p.obj == raw
		if c.offered && identity {
			// not a violation of transparency, but then this table cannot see the compressing route at all
			return desc + ": undecided — the table's handler never compresses (plain `gzip` offered, no request filter, and the next handler is given the plain writer), so the refusing cases prove nothing", n
		}
		if !c.offered && !identity {
			return desc + ": the client does not offer gzip and the next handler is given a compressing writer — the client gets a coding it cannot be assumed to decode", n
		}
	}
	return "", n
}

package main

import (
	"fmt"
	"go/types"
	"sort"
	"strings"

	"golang.org/x/tools/go/ssa"
)

// c01R6: the routing table of the vhost trie, decided by abstract evaluation (E10, string domain).
//
// Sites are drawn from a universe of host patterns over three opaque labels a.b.c — the exact name, the wildcard
// patterns *.b.c, *.*.c, *.*.*, the catch-all host, and two shorter patterns (*.c, b.c) that must never match a
// three-label host — crossed with the path prefixes /, /x, /xy (x, y opaque bytes).  For every set of up to three
// such sites, inserted in every order into a trie built by the code's own constructor, Match is evaluated for the
// request host A.B.C (the same labels in another letter case) and the request paths /, /x, /xy, /xyz, /z.  The
// result must be the specification's: the most specific matching host decides; among that host's sites the longest
// path prefix wins; no match yields no site; and none of this depends on the insertion order.
func c01R6(h H) {
	r := h.r
	r.Rule("R6", "routing table: for every set of up to three sites (all pairs over the universe, all triples over the matching patterns x {/, /xy}; thorough tier: all triples over the universe and all sets of four over the matching patterns) over the host patterns {a.b.c, *.b.c, *.*.c, *.*.*, catch-all, *.c, b.c} x path prefixes {/, /x, /xy}, inserted in every order (E10: labels and path bytes are opaque symbols, maps and slices are modelled), vhostTrie.Match for host A.B.C (other letter case) and paths /, /x, /xy, /xyz, /z returns the site of the most specific matching host pattern with the longest matching path prefix, or no site — independent of insertion order", 1)
	ins := h.fn("R6", hs, "(*vhostTrie).Insert")
	match := h.fn("R6", hs, "(*vhostTrie).Match")
	mk := h.fn("R6", hs, "newVHostTrie")
	if ins == nil || match == nil || mk == nil {
		return
	}
	lab := func(name string, cv int) atom { return atom{sym: name, cv: cv} }
	dot := atom{lit: "."}
	star := atom{lit: "*"}
	type hostPat struct {
		name  string
		atoms []atom
		rank  int // specificity rank for a three-label request host; -1: must never match
	}
	hosts := []hostPat{
		{"a.b.c", []atom{lab("A", 1), dot, lab("B", 1), dot, lab("C", 1)}, 0},
		{"*.b.c", []atom{star, dot, lab("B", 1), dot, lab("C", 1)}, 1},
		{"*.*.c", []atom{star, dot, star, dot, lab("C", 1)}, 2},
		{"*.*.*", []atom{star, dot, star, dot, star}, 3},
		{"(catch-all)", nil, 4},
		{"*.c", []atom{star, dot, lab("C", 1)}, -1},
		{"b.c", []atom{lab("B", 1), dot, lab("C", 1)}, -1},
	}
	x, y, z := symByte("x"), symByte("y"), symByte("z")
	sl := atom{lit: "/"}
	type pathPat struct {
		name  string
		atoms []atom // as written in the site key ("" for the root)
		bytes []string
	}
	paths := []pathPat{
		{"/", nil, nil},
		{"/x", []atom{sl, x}, []string{"x"}},
		{"/xy", []atom{sl, x, y}, []string{"x", "y"}},
	}
	type reqPath struct {
		name  string
		atoms []atom
		bytes []string
	}
	reqs := []reqPath{
		{"/", []atom{sl}, nil},
		{"/x", []atom{sl, x}, []string{"x"}},
		{"/xy", []atom{sl, x, y}, []string{"x", "y"}},
		{"/xyz", []atom{sl, x, y, z}, []string{"x", "y", "z"}},
		{"/z", []atom{sl, z}, []string{"z"}},
	}
	reqHost := []atom{lab("A", 2), dot, lab("B", 2), dot, lab("C", 2)}
	type siteKey struct{ h, p int }
	var universe []siteKey
	for hi := range hosts {
		for pi := range paths {
			universe = append(universe, siteKey{hi, pi})
		}
	}
	isPrefix := func(site, req []string) bool {
		if len(site) > len(req) {
			return false
		}
		for i := range site {
			if site[i] != req[i] {
				return false
			}
		}
		return true
	}
	// specification
	want := func(set []siteKey, rq reqPath) int {
		bestHost := -1
		for _, k := range set {
			if rk := hosts[k.h].rank; rk >= 0 && (bestHost < 0 || rk < hosts[bestHost].rank) {
				bestHost = k.h
			}
		}
		if bestHost < 0 {
			return -1
		}
		best := -1
		for i, k := range set {
			if k.h != bestHost || !isPrefix(paths[k.p].bytes, rq.bytes) {
				continue
			}
			if best < 0 || len(paths[k.p].bytes) > len(paths[set[best].p].bytes) {
				best = i
			}
		}
		return best
	}
	siteT := ins.Params[2].Type().(*types.Pointer).Elem()
	var subsets [][]siteKey
	subsets = append(subsets, nil)
	for i := range universe {
		subsets = append(subsets, []siteKey{universe[i]})
		for j := i + 1; j < len(universe); j++ {
			subsets = append(subsets, []siteKey{universe[i], universe[j]})
		}
	}
	// triples over the patterns that can match, two path prefixes
	var small []siteKey
	for hi := 0; hi < 5; hi++ {
		for _, pi := range []int{0, 2} {
			small = append(small, siteKey{hi, pi})
		}
	}
	for i := range small {
		for j := i + 1; j < len(small); j++ {
			for k := j + 1; k < len(small); k++ {
				subsets = append(subsets, []siteKey{small[i], small[j], small[k]})
			}
		}
	}
	if theTier == "thorough" {
		for i := range universe {
			for j := i + 1; j < len(universe); j++ {
				for k := j + 1; k < len(universe); k++ {
					subsets = append(subsets, []siteKey{universe[i], universe[j], universe[k]})
				}
			}
		}
		for i := range small {
			for j := i + 1; j < len(small); j++ {
				for k := j + 1; k < len(small); k++ {
					for l := k + 1; l < len(small); l++ {
						subsets = append(subsets, []siteKey{small[i], small[j], small[k], small[l]})
					}
				}
			}
		}
	}
	perms := func(n int) [][]int {
		var out [][]int
		idx := make([]int, n)
		for i := range idx {
			idx[i] = i
		}
		var rec func(k int)
		rec = func(k int) {
			if k == n {
				out = append(out, append([]int{}, idx...))
				return
			}
			for i := k; i < n; i++ {
				idx[k], idx[i] = idx[i], idx[k]
				rec(k + 1)
				idx[k], idx[i] = idx[i], idx[k]
			}
		}
		rec(0)
		return out
	}
	descSet := func(set []siteKey, order []int) string {
		var p []string
		for _, o := range order {
			p = append(p, hosts[set[o].h].name+paths[set[o].p].name)
		}
		return "sites inserted as [" + strings.Join(p, ", ") + "]"
	}
	bad := ""
	nTries, nMatch := 0, 0
	for _, set := range subsets {
		if bad != "" {
			break
		}
		for _, order := range perms(len(set)) {
			if bad != "" {
				break
			}
			env := &absEnv{globals: map[string]*aobj{}, noFork: true, maxSteps: 200000}
			root, und := env.run(mk, nil)
			if und != "" {
				bad = "newVHostTrie: undecided — " + und
				break
			}
			sites := make([]*aobj, len(set))
			for _, o := range order {
				k := set[o]
				sites[o] = &aobj{name: fmt.Sprintf("site%d", o), typ: siteT, f: map[string]aval{}, in: func(o *aobj, path string, t types.Type) aval { return aunk{"site field " + path} }}
				key := mkStr(append(append([]atom{}, hosts[k.h].atoms...), paths[k.p].atoms...))
				if _, und := env.run(ins, []aval{root, key, aptr{sites[o], ""}}); und != "" {
					bad = descSet(set, order) + ": Insert undecided — " + und
					break
				}
			}
			nTries++
			for _, rq := range reqs {
				if bad != "" {
					break
				}
				key := mkStr(append(append([]atom{}, reqHost...), rq.atoms...))
				res, und := env.run(match, []aval{root, key})
				nMatch++
				if und != "" {
					bad = descSet(set, order) + ", request A.B.C" + rq.name + ": Match undecided — " + und
					break
				}
				got := -2
				if tp, ok := res.(atuple); ok && len(tp) == 2 {
					switch v := tp[0].(type) {
					case anil:
						got = -1
					case aptr:
						for i, s := range sites {
							if v.obj == s {
								got = i
							}
						}
					}
				}
				if w := want(set, rq); got != w {
					name := func(i int) string {
						if i < 0 {
							return "no site"
						}
						return hosts[set[i].h].name + paths[set[i].p].name
					}
					g := "something else"
					if got >= -1 {
						g = name(got)
					}
					bad = fmt.Sprintf("%s, request A.B.C%s: specification says %s, the code returns %s", descSet(set, order), rq.name, name(w), g)
				}
			}
		}
	}
	_ = sort.Strings
	r.Check(bad == "", "R6", "httpserver.(*vhostTrie)/routing-table", match.Pos(),
		"the trie routes every request of the abstract universe to the most specific host pattern's longest matching path prefix, or to no site, whatever the order of insertion",
		fmt.Sprintf("%d site sets x insertion orders, %d lookups evaluated", nTries, nMatch), bad)
}

var _ = ssa.Value(nil)

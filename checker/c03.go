package main

import (
	"go/token"
	"go/types"
	"sort"
	"strings"

	"golang.org/x/tools/go/ssa"
)

func init() {
	register("C03", &propSpec{
		technique: "static analysis: CFG guard dominance on flag φ-webs (basicauth/internal), all-paths normalisation flow in Path.Matches, effect-class ordering over the extracted directive→handler map",
		run:       runC03,
		decided: "R1 in basicauth the next handler runs only for OPTIONS, for unprotected paths, or after the flag that is set solely behind all three credential checks; every rule is consulted (the rule loop has no early exit) and the protected flag is raised without any credential condition; internal returns 404 for every configured prefix before anything runs; " +
			"R2 Path.Matches compares operands that were both path.Clean'ed on every data path and, in the case-insensitive branch, both lower-cased; " +
			"R3 in the fixed directive list every handler that can rewrite the request path before calling Next comes before basicauth, and basicauth and internal come before every handler that can produce content from the site or a backend; " +
			"R4 every file the file server or browse opens under a path *derived* from the request path (index page, precompressed sibling, archive member) is enumerated; these are design-level known findings, a new one is a violation. Since round 4: R1/R2 are decided as tables: BasicAuth.ServeHTTP for one and two rules x resource match x exclusion x credentials, Internal.ServeHTTP for up to three prefixes, Path.Matches on concrete spellings (dot segments, repeated slashes, letter case). R5 basicauth's parser stores no exclusion wider and no resource narrower than written. R6 internal puts its paths on the site's hide list and the file handlers hide-test every derived open. Since round 7: R7 rewrite.To leaves a rooted request path for ten target spellings; R2 knows that a path ending in a dot segment names the directory.",
		notDecided: "credential strength and timing; third-party auth directives; what backends themselves reveal; content equality with valid credentials.",
	})
}

const (
	baPkg  = "caskethttp/basicauth"
	intPkg = "caskethttp/internalsrv"
)

func runC03(r *Report, p *Program) {
	h := H{r, p}
	c03R1(h)
	c03R2(h)
	dm := p.DirectiveMap()
	c03R3(h, dm)
	c03R4(h)
	c03R5(h)
	c03R6(h)
	c03R7(h)
}

func nextInvokes(fn *ssa.Function) []ssa.Instruction {
	return findCalls(fn, func(in ssa.Instruction) bool {
		c := callOf(in)
		if !c.IsInvoke() || c.Method.Name() != "ServeHTTP" || !isHandlerIface(c.Value.Type()) {
			return false
		}
		return readsField(c.Value, "Next")
	})
}

// trueSources: for a bool value (φ web), the predecessor blocks from which
// the constant `true` flows in, and whether anything other than constants/φ
// feeds it.
func trueSources(v ssa.Value) (blocks []*ssa.BasicBlock, pure bool) {
	pure = true
	seen := map[ssa.Value]bool{}
	var walk func(v ssa.Value)
	walk = func(v ssa.Value) {
		if seen[v] {
			return
		}
		seen[v] = true
		ph, ok := v.(*ssa.Phi)
		if !ok {
			if _, isC := v.(*ssa.Const); !isC {
				pure = false
			}
			return
		}
		for k, e := range ph.Edges {
			if c, ok := e.(*ssa.Const); ok {
				if c.Value != nil && c.Value.String() == "true" {
					blocks = append(blocks, ph.Block().Preds[k])
				}
				continue
			}
			walk(e)
		}
	}
	walk(v)
	return
}

// c03R1: the two protectors as decision tables (E10).  The guard-dominance patterns this rule used to consist of
// (c03R1Patterns, kept for reference, no longer registered) stood for exactly these tables.
func c03R1(h H) {
	r := h.r
	r.Rule("R1", "the protectors as decision tables (E10; the matcher, the credentials, the password functions and the next handler are oracles): BasicAuth.ServeHTTP, for one and two rules with every combination of resource match, exclusion (none / not matching / matching) and credentials (none, valid for either rule, right user with wrong password, unknown user), passes OPTIONS, passes a request no rule protects, passes a protected request exactly when its credentials are those of a rule protecting it, and answers every other request 401 without running the next handler; Internal.ServeHTTP, for up to three prefixes and every set of matching ones, answers 404 without running the next handler when any prefix matches and otherwise runs it once", 2)
	bad, n := basicAuthTable(h)
	var pos token.Pos
	if fn := h.p.Func(baPkg, "BasicAuth.ServeHTTP"); fn != nil {
		pos = fn.Pos()
	}
	r.Check(bad == "", "R1", "basicauth.BasicAuth.ServeHTTP/decision-table", pos, "a protected request reaches the handlers below only with the credentials of a rule that protects it", sprintf("%d cases evaluated", n), bad)
	bad, n = internalTable(h)
	pos = token.NoPos
	if fn := h.p.Func(intPkg, "Internal.ServeHTTP"); fn != nil {
		pos = fn.Pos()
	}
	r.Check(bad == "", "R1", "internalsrv.Internal.ServeHTTP/decision-table", pos, "a request for an internal path is answered 404 and nothing below runs", sprintf("%d cases evaluated", n), bad)
}

func c03R1Patterns(h H) {
	r := h.r
	r.Rule("R1", "guard dominance in the protectors: BasicAuth.ServeHTTP reaches Next only on r.Method==OPTIONS, on the not-protected edge, or on the authenticated edge, where 'authenticated' is a flag set only behind r.BasicAuth() ok ∧ username == Rule.Username ∧ Rule.Password(password), and 'protected' is set behind Path.Matches(resource) with no credential condition; the loop over Rules has no exit other than exhaustion; Internal.ServeHTTP reaches Next only after its loop over Paths is exhausted, the loop's only other exit returns 404", 8)
	fn := h.fn("R1", baPkg, "BasicAuth.ServeHTTP")
	if fn != nil {
		// credential atoms
		okEdges := guardEdges(fn, true, func(v ssa.Value) bool {
			ex, ok := v.(*ssa.Extract)
			return ok && ex.Index == 2 && isResultOf(ex, 2, "(*net/http.Request).BasicAuth")
		})
		userEdges := map[edge]bool{}
		for _, i := range ifs(fn) {
			v, flip := stripNot(i.Cond)
			b, ok := v.(*ssa.BinOp)
			if !ok {
				continue
			}
			if !(readsField(b.X, "Username") || readsField(b.Y, "Username")) {
				continue
			}
			other := b.X
			if readsField(b.X, "Username") {
				other = b.Y
			}
			if !derives(other, func(x ssa.Value) bool { return isResultOf(x, 0, "(*net/http.Request).BasicAuth") }, flowOpts{}) {
				continue
			}
			eq := b.Op.String() == "=="
			userEdges[condEdge{i, eq != flip}.edge()] = true
		}
		pwEdges := guardEdges(fn, true, func(v ssa.Value) bool {
			c, ok := v.(*ssa.Call)
			if !ok || c.Call.IsInvoke() || !readsField(c.Call.Value, "Password") {
				return false
			}
			return len(c.Call.Args) == 1 && derives(c.Call.Args[0], func(x ssa.Value) bool { return isResultOf(x, 1, "(*net/http.Request).BasicAuth") }, flowOpts{})
		})
		r.Check(len(okEdges) > 0 && len(userEdges) > 0 && len(pwEdges) > 0, "R1", "basicauth.BasicAuth.ServeHTTP/credential-atoms", fn.Pos(),
			"the three credential tests exist: BasicAuth() ok, supplied username == Rule.Username, Rule.Password(supplied password)",
			sprintf("ok-edges=%d user-edges=%d password-edges=%d", len(okEdges), len(userEdges), len(pwEdges)))
		matchEdges := guardEdges(fn, true, func(v ssa.Value) bool {
			c, ok := v.(*ssa.Call)
			return ok && strings.HasSuffix(calleeName(&c.Call), "httpserver.Path).Matches") && derives(c.Call.Args[1], func(x ssa.Value) bool { return readsField(x, "Resources") }, flowOpts{})
		})
		behind := func(b *ssa.BasicBlock, es map[edge]bool) bool {
			if len(b.Instrs) == 0 {
				return false
			}
			return onlyVia(fn, b.Instrs[len(b.Instrs)-1], es)
		}
		// classify bool φ conditions
		authTrue := map[edge]bool{}
		protFalse := map[edge]bool{}
		var authDesc, protDesc []string
		for _, i := range ifs(fn) {
			v, flip := stripNot(i.Cond)
			if _, isPhi := v.(*ssa.Phi); !isPhi {
				continue
			}
			src, pure := trueSources(v)
			if !pure || len(src) == 0 {
				continue
			}
			// SSA forwards the constant along every later edge, so a flag is
			// classified by what ALL of its true-sources have in common.
			isAuth, isProt := true, true
			for _, b := range src {
				if !(behind(b, okEdges) && behind(b, userEdges) && behind(b, pwEdges)) {
					isAuth = false
				}
				if !behind(b, matchEdges) {
					isProt = false
				}
			}
			if isAuth {
				authTrue[condEdge{i, !flip}.edge()] = true
				authDesc = append(authDesc, describe(v))
			} else if isProt {
				protFalse[condEdge{i, flip}.edge()] = true
				protDesc = append(protDesc, describe(v))
			}
		}
		r.Check(len(authTrue) > 0, "R1", "basicauth.BasicAuth.ServeHTTP/authenticated-flag", fn.Pos(),
			"the decision tests a flag whose every 'true' assignment lies behind all three credential tests", authDesc...)
		r.Check(len(protFalse) > 0, "R1", "basicauth.BasicAuth.ServeHTTP/protected-flag", fn.Pos(),
			"the decision tests a flag raised behind Path.Matches(resource) and under no credential condition", protDesc...)
		optEdges := map[edge]bool{}
		for _, i := range ifs(fn) {
			v, flip := stripNot(i.Cond)
			if x, eq, lit, ok := strCmp(v); ok && lit == "OPTIONS" && readsField(x, "Method") {
				// the edge on which the method IS OPTIONS, whichever way the comparison is written
				optEdges[condEdge{i, eq != flip}.edge()] = true
			}
		}
		allowed := map[edge]bool{}
		for e := range authTrue {
			allowed[e] = true
		}
		for e := range protFalse {
			allowed[e] = true
		}
		for e := range optEdges {
			allowed[e] = true
		}
		nx := nextInvokes(fn)
		if len(nx) == 0 {
			r.Unresolve("R1", "BasicAuth.ServeHTTP: no Next.ServeHTTP invoke")
		}
		for k, c := range nx {
			r.Check(onlyVia(fn, c, allowed), "R1", sprintf("basicauth.BasicAuth.ServeHTTP/next#%d", k+1), c.Pos(),
				"Next runs only for OPTIONS, for an unprotected path, or after successful authentication")
		}
		// rules loop has no early exit
		if hd, hif := loopOverField(fn, "Rules"); hd != nil {
			loop := naturalLoop(hd)
			for _, e := range loopExitEdges(loop) {
				ok := e.From == hd && e.From.Instrs[len(e.From.Instrs)-1] == ssa.Instruction(hif) && e.Idx == 1
				r.Check(ok, "R1", "basicauth.BasicAuth.ServeHTTP/rules-loop-exit", e.From.Instrs[len(e.From.Instrs)-1].Pos(),
					"the loop over Rules is left only when every rule has been consulted (an exclude or a failed login in one rule must not hide later rules)")
			}
			// each rule is judged on its own: whether a rule's resources are examined may depend on the rule and the
			// request, never on what an earlier rule did (a flag carried from one iteration into the next, such as an
			// 'excluded' that is not reset, lets an earlier rule switch a later one off)
			carried := map[*ssa.Phi]bool{}
			for _, in := range hd.Instrs {
				if ph, ok := in.(*ssa.Phi); ok {
					carried[ph] = true
				}
			}
			{
				// the loop counter(s): header φs the continuation test is computed from
				seen := map[ssa.Value]bool{}
				var walk func(v ssa.Value)
				walk = func(v ssa.Value) {
					if v == nil || seen[v] {
						return
					}
					seen[v] = true
					switch t := v.(type) {
					case *ssa.Phi:
						delete(carried, t)
					case *ssa.BinOp:
						walk(t.X)
						walk(t.Y)
					case *ssa.UnOp:
						walk(t.X)
					}
				}
				walk(hif.Cond)
			}
			dependsOnCarried := func(v ssa.Value) (string, bool) {
				seen := map[ssa.Value]bool{}
				var hit string
				var walk func(v ssa.Value) bool
				walk = func(v ssa.Value) bool {
					if v == nil || seen[v] {
						return false
					}
					seen[v] = true
					if ph, ok := v.(*ssa.Phi); ok && carried[ph] {
						hit = ph.Comment
						return true
					}
					in, ok := v.(ssa.Instruction)
					if !ok {
						return false
					}
					if _, isCall := v.(*ssa.Call); isCall {
						return false // results of calls are judged by their own arguments elsewhere
					}
					for _, op := range in.Operands(nil) {
						if *op != nil && walk(*op) {
							return true
						}
					}
					return false
				}
				return hit, walk(v)
			}
			resCalls := findCalls(fn, func(in ssa.Instruction) bool {
				c, ok := in.(*ssa.Call)
				return ok && loop[in.Block()] && strings.HasSuffix(calleeName(&c.Call), "httpserver.Path).Matches") && derives(c.Call.Args[1], func(x ssa.Value) bool { return readsField(x, "Resources") }, flowOpts{})
			})
			for k, c := range resCalls {
				okInd := true
				var facts []string
				for _, g := range guardAtoms(fn, firstInstr(hd), c) {
					if name, dep := dependsOnCarried(g.Cond); dep {
						okInd = false
						facts = append(facts, "guard "+describe(g.Cond)+" carries "+name+" over from earlier rules")
					}
				}
				r.Check(okInd, "R1", sprintf("basicauth.BasicAuth.ServeHTTP/rule-judged-independently#%d", k+1), c.Pos(),
					"whether a rule's resources are matched against the request does not depend on state left by earlier rules", facts...)
			}
			// exclude match continues with the next rule
			exEdges := guardEdges(fn, true, func(v ssa.Value) bool {
				c, ok := v.(*ssa.Call)
				return ok && strings.HasSuffix(calleeName(&c.Call), "httpserver.Path).Matches") && derives(c.Call.Args[1], func(x ssa.Value) bool { return readsField(x, "Exclude") }, flowOpts{})
			})
			r.Check(len(exEdges) > 0, "R1", "basicauth.BasicAuth.ServeHTTP/exclude-test", fn.Pos(), "excluded sub-paths are tested with Path.Matches")
			// protected flag must not be raised behind an exclude match
			for _, i := range ifs(fn) {
				v, _ := stripNot(i.Cond)
				if _, isPhi := v.(*ssa.Phi); !isPhi {
					continue
				}
				src, _ := trueSources(v)
				for _, b := range src {
					if behind(b, matchEdges) && len(b.Instrs) > 0 {
						viaEx := !canReach(fn, nil, b.Instrs[len(b.Instrs)-1], cut{edges: exEdges}) && len(exEdges) > 0
						_ = viaEx
					}
				}
			}
		} else {
			r.Unresolve("R1", "BasicAuth.ServeHTTP: loop over Rules not found")
		}
	}
	in := h.fn("R1", intPkg, "Internal.ServeHTTP")
	if in != nil {
		hd, hif := loopOverField(in, "Paths")
		if hd == nil {
			r.Fail("R1", "internalsrv.Internal.ServeHTTP/iterates-all-paths", in.Pos(), "no loop that visits every configured internal prefix was found: some prefixes are never tested")
		} else {
			r.Hold("R1", "internalsrv.Internal.ServeHTTP/iterates-all-paths", in.Pos(), "a loop over all configured internal prefixes precedes the dispatch")
			exhaust := map[edge]bool{{hd, 1}: true}
			_ = hif
			for k, c := range nextInvokes(in) {
				r.Check(onlyVia(in, c, exhaust), "R1", sprintf("internalsrv.Internal.ServeHTTP/next#%d", k+1), c.Pos(),
					"Next runs only after every internal prefix has been tested against the request path")
			}
			loop := naturalLoop(hd)
			for _, e := range loopExitEdges(loop) {
				if e.From == hd && e.Idx == 1 {
					continue
				}
				// other exits must be Path.Matches true → return 404
				v, flip := stripNot(e.From.Instrs[len(e.From.Instrs)-1].(*ssa.If).Cond)
				c, isCall := v.(*ssa.Call)
				okM := isCall && strings.HasSuffix(calleeName(&c.Call), "httpserver.Path).Matches") && (e.Idx == 0) != flip
				tgt := e.From.Succs[e.Idx]
				ret, isRet := tgt.Instrs[len(tgt.Instrs)-1].(*ssa.Return)
				ok404 := false
				if isRet && len(ret.Results) > 0 {
					if n, ok := constInt(ret.Results[0]); ok && n == 404 {
						ok404 = true
					}
				}
				r.Check(okM && ok404, "R1", "internalsrv.Internal.ServeHTTP/prefix-match-404", e.From.Instrs[len(e.From.Instrs)-1].Pos(),
					"a request path under an internal prefix is answered 404 straight away")
			}
		}
	}
}

// c03R2: the matcher as a decision table (E10, concrete paths).
func c03R2(h H) {
	r := h.r
	r.Rule("R2", "the matcher normalises both sides, decided as a table (E10): Path.Matches, evaluated on concrete request paths and bases, matches every spelling of a path at or below the base — dot segments, repeated slashes, trailing slashes, another letter case unless CaseSensitivePath — and does not match paths beside the base", 1)
	bad, n := pathMatchesTable(h)
	var pos token.Pos
	if fn := h.p.Func(hs, "Path.Matches"); fn != nil {
		pos = fn.Pos()
	}
	r.Check(bad == "", "R2", "httpserver.Path.Matches/table", pos, "no spelling of a protected path escapes the matcher", sprintf("%d cases evaluated", n), bad)
}

func c03R2Patterns(h H) {
	r := h.r
	r.Rule("R2", "matcher normalises both sides: in Path.Matches both operands of every strings.HasPrefix flow through path.Clean on every data path; in the branch taken when CaseSensitivePath is false both also flow through strings.ToLower", 2)
	fn := h.fn("R2", hs, "Path.Matches")
	if fn == nil {
		return
	}
	clean := func(v ssa.Value) bool { return isResultOf(v, 0, "path.Clean") }
	lower := func(v ssa.Value) bool { return isResultOf(v, 0, "strings.ToLower") }
	csTrue := guardEdges(fn, true, func(v ssa.Value) bool {
		u, ok := v.(*ssa.UnOp)
		if !ok {
			return false
		}
		g, ok := u.X.(*ssa.Global)
		return ok && g.Name() == "CaseSensitivePath"
	})
	n := 0
	for k, c := range findCalls(fn, func(in ssa.Instruction) bool { return isCallTo(in, "strings.HasPrefix") }) {
		n++
		a := callOf(c).Args
		okClean := allFlowsThrough(a[0], clean, true) && allFlowsThrough(a[1], clean, true)
		r.Check(okClean, "R2", sprintf("httpserver.Path.Matches/prefix-test#%d-cleaned", k+1), c.Pos(), "both operands of the prefix test were path.Clean'ed on every data path", describe(a[0]), describe(a[1]))
		caseSensitiveOnly := len(csTrue) > 0 && onlyVia(fn, c, csTrue)
		if !caseSensitiveOnly {
			okLower := allFlowsThrough(a[0], lower, false) && allFlowsThrough(a[1], lower, false)
			r.Check(okLower, "R2", sprintf("httpserver.Path.Matches/prefix-test#%d-casefolded", k+1), c.Pos(), "outside the CaseSensitivePath branch both operands are lower-cased", describe(a[0]), describe(a[1]))
		}
	}
	if n == 0 {
		r.Unresolve("R2", "Path.Matches: no strings.HasPrefix call")
	}
	// the only early `return true` is for base "/" or ""
}

// --- R3: effect classes and order

var contentAPIs = []string{
	"net/http.ServeContent", "(*text/template.Template).Execute", "(*html/template.Template).Execute",
	"(*net/http.Transport).RoundTrip", "iface:(net/http.RoundTripper).RoundTrip", "os/exec.Command",
	modPath + "/caskethttp/fastcgi.DialContext", modPath + "/caskethttp/fastcgi.Dial",
	"github.com/russross/blackfriday.Markdown", "net/http/pprof.Index", "expvar.Do",
}

func handlerReach(p *Program, d *Directive) reachResult {
	return p.reachable(d.Handlers, reachOpts{skipInvoke: func(c *ssa.CallCommon) bool {
		return isHandlerIface(c.Value.Type()) && c.Method.Name() == "ServeHTTP"
	}})
}

// pathMutators computes the module functions that store to URL.Path /
// URL.RawPath of, or replace the URL of, a *http.Request parameter — directly
// or through calls (static, or interface invokes resolved within the module;
// Handler.ServeHTTP invokes and dynamically invoked closures excluded).
func pathMutators(p *Program) map[*ssa.Function]string {
	mut := map[*ssa.Function]string{}
	funcs := p.ModFuncs()
	isReqStore := func(in ssa.Instruction) bool {
		st, ok := in.(*ssa.Store)
		if !ok {
			return false
		}
		fa, ok := st.Addr.(*ssa.FieldAddr)
		if !ok {
			return false
		}
		par, isParam := rootOf(fa).(*ssa.Parameter)
		if !isParam || !strings.HasSuffix(par.Type().String(), "net/http.Request") {
			return false
		}
		pth, _ := fieldPath(fa)
		return pth == "URL.Path" || pth == "URL.RawPath" || pth == "URL"
	}
	for _, f := range funcs {
		allInstrs(f, func(in ssa.Instruction) {
			if isReqStore(in) && mut[f] == "" {
				mut[f] = shortFunc(f) + " at " + p.Pos(in.Pos())
			}
		})
	}
	for changed := true; changed; {
		changed = false
		for _, f := range funcs {
			if mut[f] != "" || f.Parent() != nil {
				continue
			}
			allInstrs(f, func(in ssa.Instruction) {
				if mut[f] != "" {
					return
				}
				for _, g := range calleesOf(p, in) {
					if mut[g] != "" && passesRequest(in) {
						mut[f] = mut[g]
						changed = true
						return
					}
				}
			})
		}
	}
	return mut
}

func passesRequest(in ssa.Instruction) bool {
	c := callOf(in)
	for _, a := range c.Args {
		if strings.HasSuffix(a.Type().String(), "net/http.Request") {
			return true
		}
	}
	return false
}

// calleesOf resolves the module callees of a call instruction (static, or
// module implementers of the invoked interface method; Handler.ServeHTTP excluded).
func calleesOf(p *Program, in ssa.Instruction) []*ssa.Function {
	c := callOf(in)
	if c == nil {
		return nil
	}
	if _, isGo := in.(*ssa.Go); isGo {
		return nil
	}
	if c.IsInvoke() {
		if isHandlerIface(c.Value.Type()) && c.Method.Name() == "ServeHTTP" {
			return nil
		}
		if it, ok := c.Value.Type().Underlying().(*types.Interface); ok {
			return p.implementers(it, c.Method.Name())
		}
		return nil
	}
	if g := c.StaticCallee(); g != nil && isModFunc(g) {
		return []*ssa.Function{g}
	}
	return nil
}

// rewritesRequestPath: in the handler's ServeHTTP a point that mutates the
// request path (a store, or a call to a mutator) can be followed by Next.
func rewritesRequestPath(p *Program, d *Directive, mut map[*ssa.Function]string) (bool, string) {
	for _, hf := range d.Handlers {
		nx := nextInvokes(hf)
		if len(nx) == 0 {
			continue
		}
		var found string
		allInstrs(hf, func(in ssa.Instruction) {
			if found != "" {
				return
			}
			where := ""
			if st, ok := in.(*ssa.Store); ok {
				if fa, ok := st.Addr.(*ssa.FieldAddr); ok {
					if par, isParam := rootOf(fa).(*ssa.Parameter); isParam && strings.HasSuffix(par.Type().String(), "net/http.Request") {
						if pth, _ := fieldPath(fa); pth == "URL.Path" || pth == "URL.RawPath" || pth == "URL" {
							where = shortFunc(hf) + " at " + p.Pos(st.Pos())
						}
					}
				}
			}
			for _, g := range calleesOf(p, in) {
				if mut[g] != "" && passesRequest(in) {
					where = mut[g]
				}
			}
			if where == "" {
				return
			}
			for _, n := range nx {
				if canReach(hf, in, n, cut{}) {
					found = where
					return
				}
			}
		})
		if found != "" {
			return true, found
		}
	}
	return false, ""
}

func c03R3(h H, dm *DirMap) {
	r := h.r
	r.Rule("R3", "ordering by effect class (computed from the handlers on every run): every directive whose handler can store to the request's URL.Path/RawPath/URL and also invokes Next (rewriter; `internal` exempt: it re-dispatches only to a backend-chosen X-Accel-Redirect path, below itself) has a smaller index in httpserver.directives than basicauth; basicauth and internal have a smaller index than every directive whose handler can reach a content source (ServeContent, template execution, backend round trip, FastCGI dial, exec, markdown, pprof/expvar)", 12)
	if len(dm.Order) < 40 {
		r.Unresolve("R3", "httpserver.directives list not found or too short")
		return
	}
	ba := dm.ByName["basicauth"]
	in := dm.ByName["internal"]
	if ba == nil || in == nil || ba.Index < 0 || in.Index < 0 || len(ba.Handlers) == 0 || len(in.Handlers) == 0 {
		r.Unresolve("R3", "basicauth/internal not registered, not listed, or their handlers were not resolved")
		return
	}
	var names []string
	for n := range dm.ByName {
		names = append(names, n)
	}
	sort.Strings(names)
	var rewriters, producers []string
	mut := pathMutators(h.p)
	for _, n := range names {
		d := dm.ByName[n]
		if d.ServerType != "http" || len(d.Handlers) == 0 {
			continue
		}
		if d.Index < 0 {
			if d.InModule {
				r.Fail("R3", "directive:"+n+"/listed", d.RegPos, "directive registers an http middleware but is not in httpserver.directives (it would never run in a defined position)")
			}
			continue
		}
		if !d.InModule {
			continue // bodies outside the repository: ordering of these is covered by C09 R4 by name only
		}
		callsNext := false
		for _, hf := range d.Handlers {
			if len(nextInvokes(hf)) > 0 {
				callsNext = true
			}
		}
		if rw, where := rewritesRequestPath(h.p, d, mut); rw && callsNext {
			rewriters = append(rewriters, n)
			if n == "internal" {
				r.Hold("R3", "directive:internal/rewriter-exempt", d.RegPos, "internal rewrites the path only to a backend-supplied X-Accel-Redirect target and re-dispatches below itself (documented way to reach internal paths)", where)
			} else {
				r.Check(d.Index < ba.Index, "R3", "directive:"+n+"/rewriter-before-basicauth", d.RegPos,
					"a handler that rewrites the request path before calling Next must run before basicauth, or authentication is decided on a path that is not the one served", where, sprintf("index %d vs basicauth %d", d.Index, ba.Index))
			}
		}
		res := handlerReach(h.p, d)
		hit := ""
		for _, api := range contentAPIs {
			if len(res.External[api]) > 0 {
				hit = api
				break
			}
		}
		if hit == "" {
			for f := range res.Funcs {
				if funcName(f) == modPath+"/caskethttp/fastcgi.DialContext" {
					hit = "fastcgi.DialContext"
				}
			}
		}
		if hit != "" {
			producers = append(producers, n)
			r.Check(ba.Index < d.Index && in.Index < d.Index, "R3", "directive:"+n+"/producer-after-protectors", d.RegPos,
				"a handler that can produce content comes after basicauth and internal in the fixed order", "content source: "+hit, sprintf("index %d; basicauth %d, internal %d", d.Index, ba.Index, in.Index))
		}
	}
	r.Extra["c03_rewriters"] = rewriters
	r.Extra["c03_producers"] = producers
	// hand-confirmed classes must still be found (a class that silently shrinks would pass vacuously)
	for _, want := range []string{"rewrite", "tryfiles", "ext"} {
		r.Check(containsStr(rewriters, want), "R3", "class:rewriter/"+want, dm.Pos, "directive "+want+" is recognised as a path rewriter", strings.Join(rewriters, ","))
	}
	for _, want := range []string{"templates", "proxy", "fastcgi", "websocket", "markdown", "browse"} {
		r.Check(containsStr(producers, want), "R3", "class:producer/"+want, dm.Pos, "directive "+want+" is recognised as a content producer", strings.Join(producers, ","))
	}
}

func containsStr(xs []string, s string) bool {
	for _, x := range xs {
		if x == s {
			return true
		}
	}
	return false
}

func c03R4(h H) {
	r := h.r
	r.Rule("R4", "derived-path opens: in staticfiles (generic) and browse's archive walker, every jailed Open whose file reaches a content sink and whose path argument is not the request path itself opens a resource that basicauth/internal never matched against; casket has no re-check, so each such open is a (design-level) finding keyed by its construct", 3)
	n := 0
	for _, fn := range h.p.PkgFuncs(sfPkg) {
		var opens []*ssa.Extract
		allInstrs(fn, func(in ssa.Instruction) {
			if ex, ok := in.(*ssa.Extract); ok && isJailedOpen(ex) != nil {
				opens = append(opens, ex)
			}
		})
		for _, ex := range opens {
			open := isJailedOpen(ex)
			// reaches a sink?
			sink := false
			allInstrs(fn, func(in ssa.Instruction) {
				c := callOf(in)
				if c == nil {
					return
				}
				if _, isDefer := in.(*ssa.Defer); isDefer {
					return
				}
				args := c.Args
				if !c.IsInvoke() {
					if sig := c.Signature(); sig != nil && sig.Recv() != nil && len(args) > 0 {
						args = args[1:]
					}
				}
				for _, a := range args {
					if derivesPlain(a, ex) {
						sink = true
					}
				}
			})
			if !sink {
				continue
			}
			n++
			arg := open.Call.Args[0]
			pth, root := fieldPath(arg)
			_, isParam := root.(*ssa.Parameter)
			direct := pth == "URL.Path" && isParam
			// keyed by the kind of derived path, not by the function that happens to hold the Open call
			construct := "staticfiles/open:" + openKind(arg)
			if direct {
				r.Hold("R4", construct, open.Pos(), "opens exactly the request path the protectors matched against")
			} else {
				r.Fail("R4", construct, open.Pos(), "serves a file whose path is derived from, not equal to, the request path; basicauth/internal never matched this path", describe(arg))
			}
		}
	}
	if fn := h.p.Func(brPkg, "Browse.ServeArchive"); fn != nil {
		for _, g := range withHelpers(fn, 3) {
			allInstrs(g, func(in ssa.Instruction) {
				ex, ok := in.(*ssa.Extract)
				if !ok || isJailedOpen(ex) == nil {
					return
				}
				n++
				open := isJailedOpen(ex)
				r.Fail("R4", "browse.ServeArchive/open:archive-member", open.Pos(), "archives files below the requested directory; basicauth/internal matched only the directory's own path", describe(open.Call.Args[0]))
			})
		}
	}
	if n < 3 {
		r.Unresolve("R4", sprintf("only %d content opens found", n))
	}
	_ = types.Typ
}

package main

import (
	"fmt"
	"go/types"
	"strings"
)

// c12R8: the errors handler can always report.  ErrorHandler.ServeHTTP writes to its Logger on the paths that do not
// show the error to the client (and in visible mode on some that do); the Logger only works once its Start has run
// (it creates the mutex and the writer), and Start runs because the directive's setup registers it with the
// controller as a startup function.  errors.setup is evaluated (E10) on the ways the directive can be written; in
// every accepted one the handler installed must carry a logger whose Start is among the controller's startup
// functions and whose Close among its shutdown functions.
func c12R8(h H) {
	r := h.r
	r.Rule("R8", "the errors handler's logger is started, as a table (E10): errors.setup evaluated on `errors`, `errors visible`, `errors <file>`, `errors { rotate_size 1 }` and `errors visible` following `errors <file>` installs exactly one handler, and the logger that handler writes to has its Start registered as a startup function of the controller and its Close as a shutdown function (an un-started logger panics on first use: nil mutex)", 1)
	fn := h.fn("R8", "caskethttp/errors", "setup")
	if fn == nil {
		return
	}
	ctlT := fn.Params[0].Type().(*types.Pointer).Elem()
	var cfgT types.Type = types.Typ[types.Int]
	if g := h.p.Func(hs, "GetConfig"); g != nil {
		if p, ok := g.Signature.Results().At(0).Type().(*types.Pointer); ok {
			cfgT = p.Elem()
		}
	}
	scripts := [][][]string{
		{{"errors"}},
		{{"errors", "visible"}},
		{{"errors", "errors.log"}},
		{{"errors", "{"}, {"rotate_size", "1"}, {"}"}},
		{{"errors", "errors.log"}, {"errors", "visible"}},
	}
	bad, nrun := "", 0
	for _, lines := range scripts {
		if bad != "" {
			break
		}
		var ds []string
		for _, l := range lines {
			ds = append(ds, strings.Join(l, " "))
		}
		desc := "`" + strings.Join(ds, " ⏎ ") + "`"
		c := mkController(ctlT, lines)
		if c == nil {
			r.Unresolve("R8", "casket.Controller: embedded dispenser not found")
			return
		}
		cfg := &aobj{name: "siteconfig", typ: cfgT, f: map[string]aval{"Root": astr("/srv")}}
		cfg.in = func(o *aobj, path string, t types.Type) aval { return aunk{"site config field " + path} }
		var mws []aval
		started, closed := map[*aobj]bool{}, map[*aobj]bool{}
		recvOf := func(v aval) *aobj {
			if f, ok := v.(afunc); ok && len(f.free) == 1 {
				if p, ok := f.free[0].(aptr); ok {
					return p.obj
				}
			}
			return nil
		}
		env := &absEnv{globals: map[string]*aobj{}, noFork: true, maxSteps: 400000}
		env.ext = func(callee string, args []aval) (aval, bool) {
			switch {
			case strings.HasSuffix(callee, "httpserver.GetConfig"):
				return aptr{cfg, ""}, true
			case strings.HasSuffix(callee, "SiteConfig).AddMiddleware"):
				mws = append(mws, args[1])
				return atuple{}, true
			case strings.HasSuffix(callee, "Controller).OnStartup"), strings.HasSuffix(callee, "Controller).OnFirstStartup"):
				if f, ok := args[1].(afunc); ok && strings.Contains(f.fn.Name(), "Start") {
					if o := recvOf(args[1]); o != nil {
						started[o] = true
					}
				}
				return atuple{}, true
			case strings.HasSuffix(callee, "Controller).OnShutdown"), strings.HasSuffix(callee, "Controller).OnFinalShutdown"):
				if f, ok := args[1].(afunc); ok && strings.Contains(f.fn.Name(), "Close") {
					if o := recvOf(args[1]); o != nil {
						closed[o] = true
					}
				}
				return atuple{}, true
			case strings.HasSuffix(callee, "httpserver.DefaultLogRoller"):
				return aptr{&aobj{name: "log roller", typ: types.Typ[types.Int], f: map[string]aval{}}, ""}, true
			case strings.HasSuffix(callee, "httpserver.ParseRoller"):
				return anil{}, true
			}
			return nil, false
		}
		res, und := env.run(fn, []aval{aptr{c, ""}})
		nrun++
		if und != "" {
			bad = desc + ": undecided — " + und
			break
		}
		if _, isNil := res.(anil); !isNil {
			bad = desc + ": setup rejects the directive: " + describeAval(res)
			break
		}
		if len(mws) != 1 {
			bad = fmt.Sprintf("%s: %d middleware added, want 1", desc, len(mws))
			break
		}
		mw, ok := mws[0].(afunc)
		if !ok {
			bad = desc + ": the middleware is " + describeAval(mws[0])
			break
		}
		next := aiface{aptr{&aobj{name: "next handler", typ: types.Typ[types.Int], f: map[string]aval{}}, ""}, types.Typ[types.Int]}
		hv, und := env.runFunc(mw, []aval{next})
		if und != "" {
			bad = desc + ": middleware undecided — " + und
			break
		}
		hp, ok := ifaceVal(hv).(aptr)
		if !ok {
			bad = desc + ": the handler installed is " + describeAval(ifaceVal(hv))
			break
		}
		// the handler's logger: its field of type *httpserver.Logger
		logF := ""
		if st, ok := underlying(hp.obj.typ).(*types.Struct); ok {
			for i := 0; i < st.NumFields(); i++ {
				if strings.HasSuffix(st.Field(i).Type().String(), "httpserver.Logger") {
					logF = st.Field(i).Name()
				}
			}
		}
		if logF == "" {
			r.Unresolve("R8", "errors handler: no field of type *httpserver.Logger")
			return
		}
		lp, ok := env.load(hp.obj, joinPath(hp.path, logF)).(aptr)
		switch {
		case !ok:
			bad = desc + ": the handler's logger is " + describeAval(env.load(hp.obj, joinPath(hp.path, logF)))
		case !started[lp.obj]:
			bad = desc + ": the Start of the logger the handler writes to is not registered as a startup function: the first error it has to log dereferences the logger's nil mutex"
		case !closed[lp.obj]:
			bad = desc + ": the Close of the logger the handler writes to is not registered as a shutdown function"
		}
	}
	r.Check(bad == "", "R8", "errors.setup/logger-started-table", fn.Pos(), "whatever way the errors directive is written, the installed handler's logger is started with the server and closed with it", fmt.Sprintf("%d directive texts evaluated", nrun), bad)
}

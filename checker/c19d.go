package main

import (
	"fmt"
	"go/types"
	"strings"

	"golang.org/x/tools/go/ssa"
)

// c19R4: a failed exchange with the responder is never answered from.  When the FastCGI client reports an error the
// response it returns may be nil or half-filled (no status, no body); Handler.ServeHTTP is evaluated (E10) for a
// GET that passes the routing tests, with the client's answer scripted — a complete response, an error with no
// response, a time-out, and an end-of-stream error with a response that has no status yet.  The response header is
// written (writeHeader) only from a response that is there, with a status ResponseWriter.WriteHeader accepts and a
// body to copy; every failed exchange ends in a gateway error status instead.
type fcgiCase struct {
	name      string
	resp      string // "full", "nostatus", "nil"
	err       string // "", "eof", "timeout", "other"
	wantCode  int64  // expected returned status when nothing may be written; 0: the response is relayed
	copyFails bool   // relaying the body fails after the header was written
}

func c19R4(h H) {
	r := h.r
	r.Rule("R4", "a failed FastCGI exchange is never answered from, as a table (E10) of Handler.ServeHTTP with the client's answer scripted {complete response; error, no response; time-out; io.EOF with a response that has no status and no body; io.EOF with no response}: writeHeader is reached only with a non-nil response whose status is within 100..999 and whose body is non-nil, and every other outcome returns 502/504 without touching the response", 1)
	fn := h.fn("R4", fcPkg, "Handler.ServeHTTP")
	if fn == nil {
		return
	}
	cases := []fcgiCase{
		{"a complete response", "full", "", 0, false},
		{"an error and no response", "nil", "other", 502, false},
		{"a time-out and no response", "nil", "timeout", 504, false},
		{"the stream ended before any header: io.EOF with a response that has no status and no body", "nostatus", "eof", 502, false},
		{"io.EOF and no response", "nil", "eof", 502, false},
		{"an error with a response that has no status and no body", "nostatus", "other", 502, false},
	}
	bad, n := fcgiExchangeTable(h, fn, cases)
	r.Check(bad == "" && n == len(cases), "R4", "fastcgi.Handler.ServeHTTP/failed-exchange-table", fn.Pos(), "the client is answered from the responder's response only when the exchange succeeded", fmt.Sprintf("%d exchanges evaluated", n), bad)
}

// fcgiExchangeTable evaluates fastcgi.Handler.ServeHTTP (E10) with the client's answer scripted per case.
func fcgiExchangeTable(h H, fn *ssa.Function, cases []fcgiCase) (string, int) {
	hT := fn.Params[0].Type()
	reqT := fn.Params[2].Type().(*types.Pointer).Elem()
	var ruleT types.Type
	if st, ok := underlying(hT).(*types.Struct); ok {
		for i := 0; i < st.NumFields(); i++ {
			if st.Field(i).Name() == "Rules" {
				if sl, ok := underlying(st.Field(i).Type()).(*types.Slice); ok {
					ruleT = sl.Elem()
				}
			}
		}
	}
	respT := h.p.typeByName("net/http", "Response")
	opErrT := h.p.typeByName("net", "OpError")
	hdrT, _ := types.Unalias(h.p.typeByName("net/http", "Header")).Underlying().(*types.Map)
	if ruleT == nil || respT == nil || opErrT == nil || hdrT == nil {
		return "fastcgi.Handler.Rules / http.Response / net.OpError not found", 0
	}
	bad, n := "", 0
	for _, c := range cases {
		n++
		eofObj := &aobj{name: "io.EOF", typ: types.Typ[types.Int], f: map[string]aval{}}
		eof := aiface{aptr{eofObj, ""}, types.Typ[types.Int]}
		mkObj := func(name string) *aobj { return &aobj{name: name, typ: types.Typ[types.Int], f: map[string]aval{}} }
		var resp aval = anil{}
		switch c.resp {
		case "full":
			resp = aptr{&aobj{name: "response", typ: respT, f: map[string]aval{"StatusCode": aint(200), "Body": aiface{aptr{mkObj("body"), ""}, types.Typ[types.Int]}, "Header": amap{&amapData{vals: map[string]aval{}, keys: map[string]aval{}, typ: hdrT}}}}, ""}
		case "nostatus":
			resp = aptr{&aobj{name: "response", typ: respT, f: map[string]aval{"StatusCode": aint(0), "Body": anil{}, "Header": amap{&amapData{vals: map[string]aval{}, keys: map[string]aval{}, typ: hdrT}}}}, ""}
		}
		var cerr aval = anil{}
		switch c.err {
		case "eof":
			cerr = eof
		case "timeout":
			cerr = aiface{aptr{&aobj{name: "timeout error", typ: opErrT, f: map[string]aval{}}, ""}, types.NewPointer(opErrT)}
		case "other":
			cerr = aiface{aptr{mkObj("some error"), ""}, types.Typ[types.Int]}
		}
		var wrote []string
		client := &aobj{name: "fcgi client", typ: types.Typ[types.Int], f: map[string]aval{}}
		if f := h.p.Func(fcPkg, "DialContext"); f != nil && f.Signature.Results().Len() > 0 {
			if p, ok := f.Signature.Results().At(0).Type().(*types.Pointer); ok {
				client.typ = p.Elem()
			}
		}
		client.in = func(o *aobj, path string, t types.Type) aval { return aunk{"client field " + path} }
		env := &absEnv{globals: map[string]*aobj{"EOF": {name: "io.EOF variable", typ: types.Typ[types.Int], f: map[string]aval{"": eof}}}, noFork: true, maxSteps: 400000}
		env.ext = func(callee string, args []aval) (aval, bool) {
			switch {
			case strings.HasSuffix(callee, "httpserver.Path).Matches"), strings.HasSuffix(callee, "Rule).AllowedPath"), strings.HasSuffix(callee, "Rule).canSplit"):
				return abool(true), true
			case strings.HasSuffix(callee, "Handler).exists"):
				return abool(false), true
			case strings.HasSuffix(callee, "httpserver.IndexFile"):
				return atuple{astr(""), abool(false)}, true
			case strings.HasSuffix(callee, "Handler).buildEnv"):
				return atuple{anil{}, anil{}}, true
			case strings.HasSuffix(callee, "Rule).Address"), callee == "invoke:Address":
				return atuple{astr("127.0.0.1:9000"), anil{}}, true
			case strings.HasSuffix(callee, "fastcgi.DialContext"), strings.HasSuffix(callee, "fastcgi.Dial"), strings.HasSuffix(callee, "fastcgi.DialWithDialerContext"):
				return atuple{aptr{client, ""}, anil{}}, true
			case strings.HasSuffix(callee, "FCGIClient).SetReadTimeout"), strings.HasSuffix(callee, "FCGIClient).SetSendTimeout"), strings.HasSuffix(callee, "FCGIClient).Close"):
				return anil{}, true
			case strings.HasSuffix(callee, "FCGIClient).Get"), strings.HasSuffix(callee, "FCGIClient).Head"), strings.HasSuffix(callee, "FCGIClient).Post"), strings.HasSuffix(callee, "FCGIClient).Options"):
				return atuple{resp, cerr}, true
			case callee == "errors.Is":
				return abool(false), true
			case callee == "invoke:Timeout":
				return abool(true), true
			case callee == "invoke:Close":
				return anil{}, true
			case strings.HasSuffix(callee, "fastcgi.writeHeader"):
				d := "a nil response"
				if p, ok := args[1].(aptr); ok {
					code := env.load(p.obj, joinPath(p.path, "StatusCode"))
					body := env.load(p.obj, joinPath(p.path, "Body"))
					d = "status " + describeAval(code)
					if _, isNil := body.(anil); isNil {
						d += ", no body"
					}
				}
				wrote = append(wrote, d)
				return atuple{}, true
			case callee == "io.Copy":
				if _, isNil := args[1].(anil); isNil {
					wrote = append(wrote, "copy from a nil body")
				}
				if c.copyFails {
					return atuple{aint(0), aiface{aptr{mkObj("client went away"), ""}, types.Typ[types.Int]}}, true
				}
				return atuple{aint(0), anil{}}, true
			case callee == "(*bytes.Buffer).Len":
				return aint(0), true
			case callee == "context.Background", callee == "context.WithTimeout":
				return aiface{aptr{mkObj("ctx"), ""}, types.Typ[types.Int]}, true
			case callee == "strconv.ParseInt":
				return atuple{aint(0), anil{}}, true
			}
			return nil, false
		}
		rule := astruct{map[string]aval{"Path": astr("/"), "Ext": astr(".php"), "SplitPath": astr(".php"), "IndexFiles": anil{}, "ConnectTimeout": aint(0), "ReadTimeout": aint(0), "SendTimeout": aint(0), "IgnoredSubPaths": anil{}, "EnvVars": anil{}, "Root": astr("/srv"), "balancer": aiface{aptr{mkObj("balancer"), ""}, types.Typ[types.Int]}}}
		hv := astruct{map[string]aval{"Next": aiface{aptr{mkObj("next"), ""}, types.Typ[types.Int]}, "Rules": newVals([]aval{rule}, ruleT), "Root": astr("/srv"), "FileSys": aiface{aptr{mkObj("fs"), ""}, types.Typ[types.Int]}}}
		url := &aobj{name: "url", typ: types.Typ[types.Int], f: map[string]aval{"Path": astr("/index.php")}}
		req := &aobj{name: "request", typ: reqT, f: map[string]aval{"Method": astr("GET"), "ContentLength": aint(0), "Body": anil{}, "Header": amap{&amapData{vals: map[string]aval{}, keys: map[string]aval{}, typ: hdrT}}}}
		req.in = func(o *aobj, path string, t types.Type) aval {
			if path == "URL" {
				url.typ = underlying(t).(*types.Pointer).Elem()
				url.in = func(o *aobj, path string, t types.Type) aval { return zeroOf(t) }
				return aptr{url, ""}
			}
			return aunk{"request field " + path}
		}
		res, und := env.run(fn, []aval{hv, aiface{aptr{mkObj("writer"), ""}, types.Typ[types.Int]}, aptr{req, ""}})
		desc := "the responder's client reports " + c.name
		if und != "" {
			bad = desc + ": undecided — " + und
			break
		}
		status := int64(-1)
		if tp, ok := res.(atuple); ok && len(tp) == 2 {
			if v, ok := tp[0].(aint); ok {
				status = int64(v)
			}
		}
		if c.copyFails {
			if len(wrote) != 1 || wrote[0] != "status 200" {
				bad = fmt.Sprintf("%s: written: %v", desc, wrote)
			} else if status >= 400 || status < 0 {
				bad = fmt.Sprintf("%s: the response header has been written and the handler returns the status %d — the handlers above answer a status of 400 and more themselves (an error page into the response already begun, a second header); specification: 0 and the error", desc, status)
			}
		} else if c.wantCode == 0 {
			if len(wrote) != 1 || wrote[0] != "status 200" || status != 0 {
				bad = fmt.Sprintf("%s: the response is relayed as %v and the handler returns %d; specification: the header of the response (status 200) is written once and 0 returned", desc, wrote, status)
			}
		} else {
			if len(wrote) != 0 {
				bad = fmt.Sprintf("%s: the handler goes on to answer from it (%s) — WriteHeader panics for a status outside 100..999 and the body copy dereferences a nil body; specification: %d and nothing written", desc, strings.Join(wrote, "; "), c.wantCode)
			} else if status != c.wantCode {
				bad = fmt.Sprintf("%s: the handler returns %d, specification says %d", desc, status, c.wantCode)
			}
		}
		if bad != "" {
			break
		}
	}
	return bad, n
}

package main

import (
	"go/token"
	"go/types"
	"strings"

	"golang.org/x/tools/go/ssa"
)

func init() {
	register("C05", &propSpec{
		technique: "static analysis: decision-table extraction of every Policy.Select implementation and of staticUpstream.Select by abstract evaluation of their SSA (E10), module-wide atomic-access consistency, guard and loop-exit analysis of the retry loop",
		run:       runC05,
		decided: "R5 every struct field that is accessed through sync/atomic anywhere is accessed through it everywhere; " +
			"R6 the retry loop keeps retrying unless the client cancelled or the try duration is spent and ends in 502; " +
			"R7 every attempt gets the rewound buffered body and buffering is decided by exactly {retries enabled}; " +
			"R8 the hash policies' first slot is a function of key and pool length only (deterministic hash of the whole key), and each policy keys by its documented request attribute — ip_hash by the client address with the port removed by net.SplitHostPort; " +
			"R9 the full selection table of every policy and of the upstream's own Select for pools of up to five backends (three for least_conn, random and the key policies; seven and four in the thorough tier) under every availability mask: only available backends are returned and nil exactly when none is available; first picks the earliest, least_conn a least-loaded one, the hash probe the cyclic-next one from hash(key) mod n, round_robin the next after its counter and an even rotation when all are up; ip_hash, uri_hash and header send equal keys (client address without port, URI, header value) to the same backend and different keys through the hash (this subsumes the former pattern rules R1-R3). Since round 4: R6 retrying as traces of Proxy.ServeHTTP (oracle upstream, clock and backend; eight scripts): attempts continue after a failure while the try duration is not spent and stop at an answer, a cancellation or exhaustion (502); every attempt on a buffered body follows a rewind. R9 also: GetHostCount is the configured pool size. R10 every registered policy constructor yields a fresh object. Since round 6: R9 round_robin with its counter about to wrap around; R7: the body is buffered exactly when retries are enabled (a single backend is retried after its fail_timeout) and every attempt after the first follows a rewind. Since round 7: R11 every backend address ends up with the scheme it was written with, or http:// (also host names that begin with the letters http).",
		notDecided: "evenness of random, and of round_robin when some backends are down; pools larger than the enumerated ones; hash stability across pool changes; timing of try_duration; outcome under all failure patterns.",
	})
	register("C14", &propSpec{
		technique: "static analysis: SSA increment/decrement pairing incl. defer and go-closure releases, module-wide atomic-access consistency, check-then-act atomicity classification; decision tables of Down/Full/Available on a host built by NewHost (E10); wrapper summaries for counter updates",
		run:       runC14,
		decided: "R1 every +1 on a backend's in-flight counter is followed on all exits, panics included, by a deferred -1 in the same function, and every +1 on its failure counter by exactly one goroutine that sleeps the fail timeout and adds -1, both only when the timeout is positive; " +
			"R2 the counters are accessed only through sync/atomic; " +
			"R3 the connection cap is compared in one place and incremented in another without CAS or a common lock (known finding: cap can be exceeded); " +
			"R4 the decision table of Down/Full/Available on a host built by the code's own NewHost: down exactly when unhealthy or fails >= max_fails, full exactly when a cap is set and conns >= cap, available exactly when neither; R5 the counters are written only by the designated +1/-1 pairs, the in-flight pair inside a per-attempt function. Since round 4: R6 the selection tables (no backend at its cap is handed out while another has room). R7 along the proxy traces: in-flight count 1 during an attempt, 0 afterwards, one recorded failure per failed attempt. Since round 7: R9 a connection wrapper's Close closes the wrapped backend connection on every path. Since round 10: R10 a backend is made from its upstream (max_conns and fail_timeout are copied by value) only where no sub-directive parser call on the same upstream can still follow in the flow graph.",
		notDecided: "that the counter equals the number of forwards at all times under every interleaving; timer accuracy.",
	})
}

func runC05(r *Report, p *Program) {
	h := H{r, p}
	// R1 (returned host is available), R2 (nil only after a full scan) and R3 (probe index form) were pattern rules
	// over the Select implementations; the selection tables R9 decide the same clauses from what the functions compute.
	atomicConsistency(h, "R5")
	c05R6(h)
	bodyReplayRule(h, "R7")
	c05R8(h)
	c05R9(h)
	c05R10(h)
	c05R11(h)
}

func selectFuncs(h H, rule string) []*ssa.Function {
	var out []*ssa.Function
	pk := h.p.ByPath[modPath+"/"+pxPkg]
	if pk == nil {
		h.r.Unresolve(rule, "package proxy not loaded")
		return nil
	}
	polObj, _ := pk.Types.Scope().Lookup("Policy").(*types.TypeName)
	if polObj == nil {
		h.r.Unresolve(rule, "proxy.Policy interface not found")
		return nil
	}
	iface, _ := polObj.Type().Underlying().(*types.Interface)
	for _, f := range h.p.implementers(iface, "Select") {
		if len(f.Blocks) > 0 && f.Synthetic == "" {
			out = append(out, f)
		}
	}
	if f := h.p.Func(pxPkg, "(*staticUpstream).Select"); f != nil {
		out = append(out, f)
	}
	if f := h.p.Func(pxPkg, "hostByHashing"); f != nil {
		out = append(out, f)
	}
	// dedupe (value and pointer receivers resolve to the same function)
	seen := map[*ssa.Function]bool{}
	var uniq []*ssa.Function
	for _, f := range out {
		if !seen[f] {
			seen[f] = true
			uniq = append(uniq, f)
		}
	}
	return uniq
}

func isSelectLike(c *ssa.CallCommon) bool {
	if c.IsInvoke() {
		return c.Method.Name() == "Select"
	}
	f := c.StaticCallee()
	if f == nil {
		return false
	}
	return f.Name() == "Select" || f.Name() == "hostByHashing"
}

func c05R1R2(h H) {
	r := h.r
	r.Rule("R1", "siblings return only available hosts: in every Policy.Select implementation, staticUpstream.Select and hostByHashing, each host value that can be returned is either the result of another Select/hostByHashing, or is selected (returned, or assigned to the returned variable) only behind the true edge of Available() called on that same host value", 9)
	r.Rule("R2", "nil only after a full scan: a return whose value may be nil is reachable only through the exhaustion edge of a loop over the pool (or, for the single-host fast path, behind the false edge of Available()); delegating returns are exempt", 6)
	fns := selectFuncs(h, "R1")
	if len(fns) < 8 {
		r.Unresolve("R1", sprintf("only %d Select implementations resolved (7 policies + staticUpstream + hostByHashing expected)", len(fns)))
	}
	for _, fn := range fns {
		availTrue := func(host ssa.Value) map[edge]bool {
			return guardEdges(fn, true, func(v ssa.Value) bool {
				c, ok := v.(*ssa.Call)
				if !ok {
					return false
				}
				f := c.Call.StaticCallee()
				if f == nil || f.Name() != "Available" || len(c.Call.Args) == 0 {
					return false
				}
				return sameValue(c.Call.Args[0], host)
			})
		}
		availFalseAny := guardEdges(fn, false, func(v ssa.Value) bool {
			c, ok := v.(*ssa.Call)
			return ok && c.Call.StaticCallee() != nil && c.Call.StaticCallee().Name() == "Available"
		})
		// loop exhaustion edges over the pool
		exhaust := map[edge]bool{}
		for _, i := range ifs(fn) {
			b, ok := i.Cond.(*ssa.BinOp)
			if !ok || b.Op != token.LSS {
				continue
			}
			if !derives(b.Y, func(v ssa.Value) bool {
				c, ok := v.(*ssa.Call)
				return ok && calleeName(&c.Call) == "builtin.len"
			}, flowOpts{}) {
				continue
			}
			if len(naturalLoop(i.Block())) > 0 {
				exhaust[edge{i.Block(), 1}] = true
			}
		}
		for _, ret := range exitsOf(fn) {
			rt, ok := ret.(*ssa.Return)
			if !ok || len(rt.Results) != 1 {
				continue
			}
			rv := rt.Results[0]
			// leaves through φ and through defer-spilled result slots
			type leaf struct {
				v  ssa.Value
				at ssa.Instruction // the point at which v is selected (φ-pred terminator, result-slot store, or the return)
			}
			var leaves []leaf
			seen := map[ssa.Value]bool{}
			var walk func(v ssa.Value, at, outer ssa.Instruction)
			walk = func(v ssa.Value, at, outer ssa.Instruction) {
				if ph, ok := v.(*ssa.Phi); ok {
					if seen[v] {
						return
					}
					seen[v] = true
					for k, e := range ph.Edges {
						walk(e, lastInstr(ph.Block().Preds[k]), outer)
					}
					return
				}
				if ld, ok := v.(*ssa.UnOp); ok && ld.Op == token.MUL {
					if a, ok := ld.X.(*ssa.Alloc); ok && !seen[v] {
						seen[v] = true
						for _, ref := range *a.Referrers() {
							if st, ok := ref.(*ssa.Store); ok && st.Addr == a {
								walk(st.Val, st, st)
							}
						}
						return
					}
				}
				if c, ok := v.(*ssa.Const); ok && c.Value == nil {
					// an initial nil carried by φ is "returned" where the function returns (or fills its result slot)
					at = outer
				}
				leaves = append(leaves, leaf{v, at})
			}
			walk(rv, rt, rt)
			mayNil := false
			var nilAts []ssa.Instruction
			for _, lf := range leaves {
				if c, ok := lf.v.(*ssa.Const); ok {
					if c.Value == nil {
						mayNil = true
						nilAts = append(nilAts, lf.at)
					}
					continue
				}
				if call, ok := lf.v.(*ssa.Call); ok && isSelectLike(&call.Call) {
					r.Hold("R1", shortFunc(fn)+"/delegates:"+shortCallee(call), call.Pos(), "result of another policy, itself subject to this rule")
					continue
				}
				e := availTrue(lf.v)
				ok := len(e) > 0 && onlyVia(fn, lf.at, e)
				r.Check(ok, "R1", shortFunc(fn)+"/returns:"+hostDesc(lf.v), lf.at.Pos(),
					"a host is chosen only behind the true edge of Available() on that very host", describe(lf.v))
			}
			if mayNil {
				allowed := map[edge]bool{}
				for e := range exhaust {
					allowed[e] = true
				}
				for e := range availFalseAny {
					allowed[e] = true
				}
				// a flag φ tested in its own block: its true edge can only be taken when the block was entered
				// through a predecessor that does not carry the constant false
				for _, i := range ifs(fn) {
					v, flip := stripNot(i.Cond)
					ph, ok := v.(*ssa.Phi)
					if !ok || ph.Block() != i.Block() {
						continue
					}
					all := true
					for k, e := range ph.Edges {
						if c, ok := e.(*ssa.Const); ok && c.Value != nil && c.Value.String() == "false" {
							continue
						}
						pred := ph.Block().Preds[k]
						viaAllowed := false
						for si, sc := range pred.Succs {
							if sc == ph.Block() && allowed[edge{pred, si}] {
								viaAllowed = true
							}
						}
						if !viaAllowed && !onlyVia(fn, lastInstr(pred), allowed) {
							all = false
						}
					}
					if all {
						allowed[condEdge{i, !flip}.edge()] = true
					}
				}
				for _, at := range nilAts {
					r.Check(onlyVia(fn, at, allowed), "R2", shortFunc(fn)+"/nil-return", at.Pos(),
						"a nil result is returned only after the pool loop ran to exhaustion (or the single host was unavailable)")
				}
			}
		}
	}
}

// sameValue: a and b denote the same host value (identical SSA value, or two
// loads of the same address expression).
func sameValue(a, b ssa.Value) bool {
	if a == b {
		return true
	}
	return describe(a) == describe(b) && describe(a) != "φ" && !strings.Contains(describe(a), "…")
}

func hostDesc(v ssa.Value) string {
	d := describe(v)
	if i := strings.Index(d, "["); i > 0 {
		return d[:i] + "[…]"
	}
	return d
}

func c05R3(h H) {
	r := h.r
	r.Rule("R3", "probe completeness: an index expression pool[e % n] evaluated inside a loop must have e = (value defined outside the loop) + (counter advanced by a constant 1 per iteration), or e itself a counter advanced by exactly 1 per evaluation; anything else (e.g. accumulating the counter) skips slots for some pool sizes", 2)
	n := 0
	for _, fn := range h.p.PkgFuncs(pxPkg) {
		if fn.Name() != "Select" && fn.Name() != "hostByHashing" {
			continue
		}
		allInstrs(fn, func(in ssa.Instruction) {
			var idx ssa.Value
			switch t := in.(type) {
			case *ssa.IndexAddr:
				idx = t.Index
			case *ssa.Index:
				idx = t.Index
			default:
				return
			}
			_, loop := loopOf(in.Block())
			if loop == nil {
				return
			}
			// peel conversions
			for {
				if c, ok := idx.(*ssa.Convert); ok {
					idx = c.X
					continue
				}
				break
			}
			rem, ok := idx.(*ssa.BinOp)
			if !ok || rem.Op != token.REM {
				// range element or plain counter: fine (visits every slot by construction) unless it is a φ with a non-unit step
				if _, isPhi := idx.(*ssa.Phi); isPhi {
					if st, ok := unitStep(idx); ok && st != 1 {
						n++
						r.Fail("R3", shortFunc(fn)+"/probe-index", in.Pos(), "pool index advances by a step other than 1", describe(idx))
					}
				}
				return
			}
			n++
			e := rem.X
			ok1 := false
			why := describe(e)
			if add, isAdd := e.(*ssa.BinOp); isAdd && add.Op == token.ADD {
				for _, pair := range [][2]ssa.Value{{add.X, add.Y}, {add.Y, add.X}} {
					base, ctr := pair[0], pair[1]
					if st, ok := unitStep(ctr); ok && st == 1 && definedOutside(base, loop) {
						ok1 = true
					}
				}
			}
			// a counter field incremented by one right before: *p after *p = *p + 1
			if ld, isLoad := e.(*ssa.UnOp); isLoad && ld.Op == token.MUL {
				for _, x := range in.Block().Instrs {
					if st, ok := x.(*ssa.Store); ok && sameValue(st.Addr, ld.X) {
						if add, ok := st.Val.(*ssa.BinOp); ok && add.Op == token.ADD {
							if c, ok := constInt(add.Y); ok && c == 1 {
								if l2, ok := add.X.(*ssa.UnOp); ok && sameValue(l2.X, ld.X) {
									ok1 = true
								}
							}
						}
					}
				}
			}
			r.Check(ok1, "R3", shortFunc(fn)+"/probe-index", in.Pos(),
				"the probed slot is (fixed start + i) mod n for i = 0,1,2,… so that all n slots are visited in n iterations", why)
		})
	}
	if n < 2 {
		r.Unresolve("R3", sprintf("only %d modular pool index expressions found (round robin and hashed probing expected)", n))
	}
}

// atomicConsistency (E8 i): any struct field whose address is passed to a
// sync/atomic function anywhere in the module must never be loaded or stored
// directly, except on a struct that is still private to the function that
// allocated it (composite literal initialisation).
func atomicConsistency(h H, rule string) {
	r := h.r
	r.Rule(rule, "atomic consistency: a struct field whose address is passed to sync/atomic.* somewhere in the module is never read or written non-atomically elsewhere (initialisation of a freshly allocated, unpublished struct excepted)", 3)
	type fkey struct {
		t string
		f string
	}
	atomicFields := map[fkey]bool{}
	funcs := h.p.ModFuncs()
	keyOf := func(fa *ssa.FieldAddr) fkey {
		t := fa.X.Type()
		if p, ok := t.Underlying().(*types.Pointer); ok {
			t = p.Elem()
		}
		return fkey{t.String(), fieldName(fa.X.Type(), fa.Field)}
	}
	for _, fn := range funcs {
		allInstrs(fn, func(in ssa.Instruction) {
			if addr, _, ok := isAtomicCall(in); ok {
				if fa, ok := addr.(*ssa.FieldAddr); ok {
					atomicFields[keyOf(fa)] = true
				}
			}
		})
	}
	counts := map[fkey]int{}
	for _, fn := range funcs {
		allInstrs(fn, func(in ssa.Instruction) {
			fa, ok := in.(*ssa.FieldAddr)
			if !ok || !atomicFields[keyOf(fa)] {
				return
			}
			k := keyOf(fa)
			for _, ref := range *fa.Referrers() {
				switch u := ref.(type) {
				case *ssa.UnOp:
					counts[k]++
					r.Fail(rule, shortType(k.t)+"."+k.f+"/plain-read:"+shortFunc(fn), u.Pos(), "field is updated with sync/atomic elsewhere but read here with a plain load (data race; torn or stale value)")
				case *ssa.Store:
					if u.Addr != fa {
						continue
					}
					if a, isAlloc := rootOf(fa).(*ssa.Alloc); isAlloc && a.Heap || isFreshAlloc(rootOf(fa)) {
						continue // initialising a struct nobody else can see yet
					}
					counts[k]++
					r.Fail(rule, shortType(k.t)+"."+k.f+"/plain-write:"+shortFunc(fn), u.Pos(), "field is updated with sync/atomic elsewhere but written here with a plain store")
				default:
					if c := callOf(ref); c != nil {
						if _, _, isAt := isAtomicCall(ref); isAt {
							continue
						}
					}
				}
			}
		})
	}
	for k := range atomicFields {
		if counts[k] == 0 {
			r.Hold(rule, shortType(k.t)+"."+k.f+"/atomic-only", token.NoPos, "every access to this field in the module goes through sync/atomic")
		}
	}
}

func isFreshAlloc(v ssa.Value) bool {
	a, ok := v.(*ssa.Alloc)
	return ok && a != nil
}

func shortType(t string) string {
	t = strings.TrimPrefix(t, "*")
	if i := strings.LastIndex(t, "/"); i >= 0 {
		t = t[i+1:]
	}
	return t
}

// c05R6: the retry loop, decided from traces of Proxy.ServeHTTP (E10, see proxyTraces).  The loop-shape formulation
// (c05R6Patterns) is kept for reference and no longer registered.
func c05R6(h H) {
	r := h.r
	r.Rule("R6", "retrying as traces (E10): Proxy.ServeHTTP, evaluated with an oracle upstream, clock and backend round trip for eight scripts (first backend answers; failures followed by an answer from another or the same backend; no backend available at first; failures until the try duration is spent; the client cancels; retries disabled; a single backend), makes exactly the specified attempts — it goes on to the next backend after a failure while the try duration is not spent, stops at the first answer, at a cancellation and when the duration is spent (502), and every attempt on a buffered body follows a rewind", 2)
	t := proxyTraces(h)
	var pos token.Pos
	if fn := h.p.Func(pxPkg, "Proxy.ServeHTTP"); fn != nil {
		pos = fn.Pos()
	}
	n := sprintf("%d scripts evaluated", t.n)
	r.Check(t.retry == "" && t.other == "", "R6", "proxy.Proxy.ServeHTTP/retry-trace", pos, "retrying stops only at an answer, when the client cancelled or when the configured try duration is spent, and then reports 502", n, t.retry, t.other)
	r.Check(t.body == "" && t.other == "", "R6", "proxy.Proxy.ServeHTTP/every-attempt-gets-the-whole-body", pos, "the buffered request body is rewound before every attempt", n, t.body, t.other)
}

func c05R6Patterns(h H) {
	r := h.r
	r.Rule("R6", "retry loop shape: every way of leaving the retry loop without returning (the way to the final 502) lies behind 'the client cancelled' (error == context.Canceled) or 'the try duration is spent' (time.Since(start) >= GetTryDuration()) — tested in the loop itself or in a function whose every `return false` lies behind one of the two; the function's final return after the loop reports 502", 2)
	sv := h.fn("R6", pxPkg, "Proxy.ServeHTTP")
	if sv == nil {
		return
	}
	stopAtom := func(g guardInfo) bool {
		b, ok := g.Cond.(*ssa.BinOp)
		if !ok {
			return false
		}
		if (b.Op == token.EQL && g.Pos) || (b.Op == token.NEQ && !g.Pos) {
			if isGlobalLoad(b.Y, "Canceled") || isGlobalLoad(b.X, "Canceled") {
				return true
			}
		}
		since := func(v ssa.Value) bool { return isResultOf(v, 0, "time.Since") }
		dur := func(v ssa.Value) bool { return isInvokeOf(v, "GetTryDuration") }
		switch {
		case b.Op == token.GEQ && g.Pos && since(b.X) && dur(b.Y), b.Op == token.LSS && !g.Pos && since(b.X) && dur(b.Y):
			return true
		case b.Op == token.LEQ && g.Pos && dur(b.X) && since(b.Y), b.Op == token.GTR && !g.Pos && dur(b.X) && since(b.Y):
			return true
		}
		return false
	}
	// a predicate function: every `return false` is explained by a stop condition
	var falseMeansStop func(f *ssa.Function) (bool, []string)
	falseMeansStop = func(f *ssa.Function) (bool, []string) {
		okAll, n := true, 0
		var facts []string
		for _, e := range exitsOf(f) {
			rt, ok := e.(*ssa.Return)
			if !ok || len(rt.Results) != 1 {
				continue
			}
			for _, v := range valuesAt(f, rt.Results[0], rt) {
				c, isC := v.(*ssa.Const)
				if isC && c.Value != nil && c.Value.String() == "true" {
					continue
				}
				n++
				rec := false
				for _, g := range guardAtoms(f, nil, rt) {
					facts = append(facts, describe(g.Cond))
					if stopAtom(g) {
						rec = true
					}
				}
				if !rec {
					okAll = false
				}
			}
		}
		return okAll && n > 0, facts
	}
	var sel ssa.Instruction
	allInstrs(sv, func(in ssa.Instruction) {
		if c := callOf(in); c != nil && c.IsInvoke() && c.Method.Name() == "Select" {
			sel = in
		}
	})
	if sel == nil {
		r.Unresolve("R6", "Proxy.ServeHTTP: no Select invoke")
		return
	}
	hd, loop := loopOf(sel.Block())
	if hd == nil {
		r.Unresolve("R6", "Proxy.ServeHTTP: the Select invoke is not inside a loop")
		return
	}
	nExit := 0
	for _, e := range loopExitEdges(loop) {
		target := e.From.Succs[e.Idx]
		// the exhausted path is the one from which the 502 return is reachable; other exits are early returns
		// from inside the loop (success, 413, 499, 500)
		to502 := false
		if f := firstInstr(target); f != nil {
			chk := func(x ssa.Instruction) bool {
				if rt, ok := x.(*ssa.Return); ok {
					for _, v := range valuesAt(sv, retResults(rt)[0], rt) {
						if n, ok := constInt(v); ok && n == 502 {
							to502 = true
						}
					}
				}
				return !to502
			}
			if chk(f) {
				reach(sv, f, cut{}, chk)
			}
		}
		if !to502 {
			continue
		}
		nExit++
		term := lastInstr(e.From)
		explained := false
		var facts []string
		atoms := guardAtoms(sv, firstInstr(hd), term)
		if i, ok := term.(*ssa.If); ok {
			v, flip := stripNot(i.Cond)
			atoms = append(atoms, conjAtoms(sv, v, (e.Idx == 0) != flip, 0)...)
		}
		for _, g := range atoms {
			facts = append(facts, describe(g.Cond))
			if stopAtom(g) {
				explained = true
			}
			callExplains := func(v ssa.Value) bool {
				c, ok := v.(*ssa.Call)
				if !ok {
					return false
				}
				f := calleeFunc(&c.Call)
				if f == nil || len(f.Blocks) == 0 {
					return false
				}
				ok2, fs := falseMeansStop(f)
				if !ok2 {
					facts = append(facts, fs...)
				}
				return ok2
			}
			if !g.Pos && callExplains(g.Cond) {
				explained = true
			}
			// a loop flag (`for retry := true; retry; { … retry = keepRetrying(err) }`): it is false only if one of
			// the values assigned to it is, and each of those must be such a predicate's result
			if ph, ok := g.Cond.(*ssa.Phi); ok && !g.Pos {
				leaves, direct := phiLeaves(ph)
				all := len(leaves)+len(direct) > 0
				for _, lf := range leaves {
					if c, isC := lf.V.(*ssa.Const); isC && c.Value != nil && c.Value.String() == "true" {
						continue
					}
					if !callExplains(lf.V) {
						all = false
					}
				}
				for _, d := range direct {
					if !callExplains(d) {
						all = false
					}
				}
				if all {
					explained = true
				}
			}
		}
		r.Check(explained, "R6", sprintf("proxy.Proxy.ServeHTTP/retry-loop-exit#%d", nExit), term.Pos(), "retrying stops only when the client cancelled or the configured try duration is spent", facts...)
	}
	if nExit == 0 {
		r.Unresolve("R6", "Proxy.ServeHTTP: the retry loop has no exit towards the exhausted path")
	}
	// final return 502
	last := false
	for _, g := range withHelpers(sv, 2) {
		allInstrs(g, func(in ssa.Instruction) {
			switch t := in.(type) {
			case *ssa.Store:
				if n, ok := constInt(t.Val); ok && n == 502 {
					last = true
				}
			case *ssa.Return:
				for _, v := range t.Results {
					if n, ok := constInt(v); ok && n == 502 {
						last = true
					}
				}
			}
		})
	}
	r.Check(last, "R6", "proxy.Proxy.ServeHTTP/exhausted-502", sv.Pos(), "when retries are exhausted the handler reports 502 Bad Gateway")
}

// returnsConstStatusOrNil: the block ends in a return whose status result is a constant (an early return from the loop).
func returnsConstStatusOrNil(b *ssa.BasicBlock) bool {
	rt, ok := lastInstr(b).(*ssa.Return)
	if !ok || len(rt.Results) == 0 {
		return false
	}
	res := retResults(rt)
	_, isC := res[0].(*ssa.Const)
	return isC
}

func isGlobalLoad(v ssa.Value, name string) bool {
	u, ok := v.(*ssa.UnOp)
	if !ok || u.Op != token.MUL {
		return false
	}
	g, ok := u.X.(*ssa.Global)
	return ok && g.Name() == name
}

// ---------------------------------------------------------------------------
// C14

func runC14(r *Report, p *Program) {
	h := H{r, p}
	c14R1(h)
	atomicConsistency(h, "R2")
	c14R3(h)
	c14R4(h)
	c14R5(h)
	selectionTables(h, "R6")
	c14Trace(h)
	c14R8(h)
	c14R9(h)
	c14R10(h)
}

// c14R5: who may write the counters, and where.
func c14R5(h H) {
	r := h.r
	r.Rule("R5", "who-may-write the counters: the only writes to UpstreamHost.Conns in the module are Add(+1) and a deferred Add(-1) in one function that is not a loop body (so the decrement runs when that attempt ends, not when the request ends); the only writes to UpstreamHost.Fails are Add(+1) in Proxy.ServeHTTP and Add(-1) in the goroutine it starts; nothing stores, swaps or resets them", 4)
	n := 0
	for _, fn := range h.p.ModFuncs() {
		allInstrs(fn, func(in ssa.Instruction) {
			addr, name, ok := isAtomicCall(in)
			if !ok {
				return
			}
			fa, isFA := addr.(*ssa.FieldAddr)
			if !isFA || !strings.HasSuffix(strings.TrimPrefix(fa.X.Type().String(), "*"), "proxy.UpstreamHost") {
				return
			}
			field := fieldName(fa.X.Type(), fa.Field)
			if field != "Conns" && field != "Fails" {
				return
			}
			if strings.HasPrefix(name, "Load") {
				return
			}
			n++
			c := callOf(in)
			delta := int64(0)
			if strings.HasPrefix(name, "Add") {
				delta, _ = constInt(c.Args[1])
			}
			_, isDefer := in.(*ssa.Defer)
			construct := sprintf("%s/%s.%s(%+d)", shortFunc(fn), field, name, delta)
			// the request path that owns the pairing: Proxy.ServeHTTP and what it calls, defers or starts in its package
			owned := false
			if sv := h.p.Func(pxPkg, "Proxy.ServeHTTP"); sv != nil {
				for _, g := range withHelpers(sv, 4) {
					if g == fn {
						owned = true
					}
				}
			}
			sites := callSitesOf(h.p, fn)
			onlyCalledBy := func(kind string) bool {
				if len(sites) == 0 {
					return false
				}
				for _, s := range sites {
					switch s.(type) {
					case *ssa.Defer:
						if kind != "defer" || inLoop(s.Block()) {
							return false
						}
					case *ssa.Go:
						if kind != "go" {
							return false
						}
					default:
						return false
					}
				}
				return true
			}
			isServe := fn.Parent() == nil && fn.Name() == "ServeHTTP"
			switch {
			case !strings.HasPrefix(name, "Add") || (delta != 1 && delta != -1):
				r.Fail("R5", construct, in.Pos(), "the counter is overwritten instead of being incremented/decremented in pairs: outstanding decrements will later drive it out of step (below zero, or down while failures are still unexpired)")
			case !owned:
				r.Fail("R5", construct, in.Pos(), "the counter is modified outside the request path that owns the pairing")
			case field == "Conns" && delta == 1:
				r.Check(!inLoop(in.Block()) && !isServe, "R5", construct, in.Pos(), "the in-flight increment lives in a per-attempt function, not directly in the retry loop (a defer in a loop only runs when the whole request ends)")
			case field == "Conns" && delta == -1:
				r.Check((isDefer && !inLoop(in.Block())) || onlyCalledBy("defer"), "R5", construct, in.Pos(), "the in-flight decrement is deferred in the per-attempt function")
			case field == "Fails" && delta == -1:
				r.Check(fn.Parent() != nil || onlyCalledBy("go"), "R5", construct, in.Pos(), "failures are taken back only by the timed goroutine")
			default:
				r.Hold("R5", construct, in.Pos(), "designated counter update")
			}
		})
	}
	if n < 4 {
		r.Unresolve("R5", sprintf("only %d counter writes found", n))
	}
}

func c14R1(h H) {
	r := h.r
	// every forward is counted: in the function that performs the forward call, the +1 on the chosen host's
	// in-flight counter lies on every path to that call (counting only some requests, e.g. only when a cap is
	// configured, makes least_conn and the drain-to-zero clause wrong)
	defer func() {
		sv := h.p.Func(pxPkg, "Proxy.ServeHTTP")
		if sv == nil {
			return
		}
		nf := 0
		for _, fn := range withHelpers(sv, 3) {
			for _, c := range findCalls(fn, func(in ssa.Instruction) bool {
				cc := callOf(in)
				return cc != nil && strings.HasSuffix(calleeName(cc), "proxy.ReverseProxy).ServeHTTP")
			}) {
				nf++
				ok := mustPass(fn, c, func(in ssa.Instruction) bool {
					addr, name, isAt := isAtomicCall(in)
					if !isAt || !strings.HasPrefix(name, "Add") {
						return false
					}
					if _, isDefer := in.(*ssa.Defer); isDefer {
						return false
					}
					d, _ := constInt(callOf(in).Args[1])
					fa, isFA := addr.(*ssa.FieldAddr)
					return isFA && d == 1 && fieldName(fa.X.Type(), fa.Field) == "Conns"
				})
				r.Check(ok, "R1", shortFunc(fn)+"/forward-is-counted", c.Pos(), "the in-flight counter is incremented on every path to the forward call (every request being forwarded is counted, not only some)")
			}
		}
		if nf == 0 {
			r.Unresolve("R1", "Proxy.ServeHTTP: no call of ReverseProxy.ServeHTTP found")
		}
	}()
	r.Rule("R1", "counter pairing: every sync/atomic Add of +1 on UpstreamHost.Conns is paired, in the same function, with a deferred Add of -1 on the same address registered on every path before the forward call can panic, and the forward call is reached only past such a +1; every Add of +1 on UpstreamHost.Fails is followed on every path to an exit by a `go` of a function that calls time.Sleep and then Add(-1) on the host's Fails, and both lie behind FailTimeout > 0", 2)
	n := 0
	for _, fn := range h.p.PkgFuncs(pxPkg) {
		allInstrs(fn, func(in ssa.Instruction) {
			addr, name, ok := isAtomicCall(in)
			if !ok || !strings.HasPrefix(name, "Add") {
				return
			}
			if _, isDefer := in.(*ssa.Defer); isDefer {
				return
			}
			if _, isGo := in.(*ssa.Go); isGo {
				return
			}
			delta, _ := constInt(callOf(in).Args[1])
			fa, isFA := addr.(*ssa.FieldAddr)
			if !isFA || delta != 1 {
				return
			}
			field := fieldName(fa.X.Type(), fa.Field)
			switch field {
			case "Conns":
				n++
				// a deferred -1 on the same address must be registered on all paths from here to any exit or call
				okPair := true
				var bad ssa.Instruction
				isDecOf := func(x ssa.Instruction) bool {
					if _, isDefer := x.(*ssa.Defer); !isDefer {
						return false
					}
					o2, f2, dl, ok := counterAdd(x)
					return ok && f2 == "Conns" && dl == -1 && sameObject(o2, fa.X)
				}
				reach(fn, in, cut{instr: isDecOf}, func(x ssa.Instruction) bool {
					switch x.(type) {
					case *ssa.Return, *ssa.Panic:
						okPair = false
						bad = x
						return false
					case *ssa.Call:
						// a call that can panic before the decrement is registered
						if _, _, isAt := isAtomicCall(x); !isAt {
							okPair = false
							bad = x
							return false
						}
					}
					return true
				})
				if !okPair {
					// the other safe order: the matching defer is registered first and the increment follows it
					// with nothing in between that could return, panic or call out (so the pair is all-or-nothing)
					isDec := isDecOf
					if mustPass(fn, in, isDec) {
						before := true
						for _, d := range findCalls(fn, isDec) {
							reach(fn, d, cut{instr: func(x ssa.Instruction) bool { return x == in }}, func(x ssa.Instruction) bool {
								if x == in {
									return true
								}
								switch x.(type) {
								case *ssa.Return, *ssa.Panic:
									before = false
								case *ssa.Call:
									if _, _, isAt := isAtomicCall(x); !isAt {
										before = false
									}
								}
								return before
							})
						}
						if before {
							okPair, bad = true, nil
						}
					}
				}
				what := "the in-flight counter is decremented by a defer registered right after (or right before) the increment (so a panic in the forward call cannot leak it)"
				if bad != nil {
					what += "; unprotected: " + h.p.Pos(bad.Pos())
				}
				r.Check(okPair, "R1", shortFunc(fn)+"/Conns+1", in.Pos(), what)
			case "Fails":
				n++
				okPair := true
				reach(fn, in, cut{instr: func(x ssa.Instruction) bool {
					// the same thing written with a timer: time.AfterFunc(d, func() { Fails-- })
					if c := callOf(x); c != nil && calleeName(c) == "time.AfterFunc" && len(c.Args) == 2 {
						var f *ssa.Function
						switch t := c.Args[1].(type) {
						case *ssa.MakeClosure:
							f, _ = t.Fn.(*ssa.Function)
						case *ssa.Function:
							f = t
						}
						if f == nil {
							return false
						}
						dec := false
						allInstrs(f, func(y ssa.Instruction) {
							if a2, nm, ok := isAtomicCall(y); ok && strings.HasPrefix(nm, "Add") {
								if fa2, ok := a2.(*ssa.FieldAddr); ok && fieldName(fa2.X.Type(), fa2.Field) == "Fails" {
									if dl, _ := constInt(callOf(y).Args[1]); dl == -1 {
										dec = true
									}
								}
							}
						})
						return dec
					}
					g, isGo := x.(*ssa.Go)
					if !isGo {
						return false
					}
					f := calleeFunc(&g.Call)
					if f == nil {
						return false
					}
					slept, dec := false, false
					var sleepI, decI ssa.Instruction
					allInstrs(f, func(y ssa.Instruction) {
						if isCallTo(y, "time.Sleep") {
							slept = true
							sleepI = y
						}
						if a2, nm, ok := isAtomicCall(y); ok && strings.HasPrefix(nm, "Add") {
							if fa2, ok := a2.(*ssa.FieldAddr); ok && fieldName(fa2.X.Type(), fa2.Field) == "Fails" {
								if dl, _ := constInt(callOf(y).Args[1]); dl == -1 {
									dec = true
									decI = y
								}
							}
						}
					})
					return slept && dec && mustPass(f, decI, func(z ssa.Instruction) bool { return z == sleepI })
				}}, func(x ssa.Instruction) bool {
					switch x.(type) {
					case *ssa.Return, *ssa.Panic:
						okPair = false
						return false
					}
					// loop back edge to another increment without the goroutine
					return true
				})
				r.Check(okPair, "R1", shortFunc(fn)+"/Fails+1", in.Pos(), "every recorded failure starts exactly one goroutine that sleeps the fail timeout and then takes the failure back")
				// guard: timeout > 0
				pos := guardsImplyAtLeast(guardAtoms(fn, nil, in), func(x ssa.Value) bool {
					return derives(x, func(v ssa.Value) bool { return readsField(v, "FailTimeout") }, flowOpts{})
				}, 1)
				r.Check(pos, "R1", shortFunc(fn)+"/Fails+1-guard", in.Pos(), "failures are counted only when FailTimeout > 0 (otherwise they would never expire)")
			}
		})
	}
	if n < 2 {
		r.Unresolve("R1", sprintf("only %d counter increments found in package proxy", n))
	}
}

func c14R3(h H) {
	r := h.r
	r.Rule("R3", "cap enforced atomically (check-then-act): the comparison Conns >= MaxConns and the increment of Conns must be one atomic step (CompareAndSwap loop) or share a lock; casket compares in UpstreamHost.Full (called from Select) and increments later in Proxy.ServeHTTP", 1)
	// what Full() computes is decided by R4's table; here: how the counter it reads is incremented
	nInc := 0
	for _, fn := range h.p.PkgFuncs(pxPkg) {
		allInstrs(fn, func(in ssa.Instruction) {
			addr, name, ok := isAtomicCall(in)
			if !ok {
				return
			}
			fa, isFA := addr.(*ssa.FieldAddr)
			if !isFA || fieldName(fa.X.Type(), fa.Field) != "Conns" {
				return
			}
			if strings.HasPrefix(name, "CompareAndSwap") {
				r.Hold("R3", shortFunc(fn)+"/Conns-cas", in.Pos(), "increment by compare-and-swap")
				return
			}
			if !strings.HasPrefix(name, "Add") {
				return
			}
			if d, _ := constInt(callOf(in).Args[1]); d != 1 {
				return
			}
			nInc++
			r.Fail("R3", "proxy/Conns-increment-not-atomic-with-cap-check", in.Pos(),
				"max_conns is checked by Full() at selection time and the counter is incremented later by a plain atomic add: N concurrent requests can all pass the check and all increment, exceeding the cap")
		})
	}
	if nInc == 0 {
		r.Unresolve("R3", "no increment of UpstreamHost.Conns found in package proxy")
	}
}

func outerFunc(fn *ssa.Function) string {
	for fn.Parent() != nil {
		fn = fn.Parent()
	}
	return shortFunc(fn)
}

func c14R4(h H) {
	h.r.Rule("R4", "availability predicates as decision tables (E10): a host built by staticUpstream.NewHost is evaluated under every combination of unhealthy flag, failure count vs max_fails, cap set/unset and in-flight count vs cap — Down() is true exactly under unhealthy or fails >= max_fails, Full() exactly under cap set and conns >= cap, Available() exactly when neither; the default Down() (no CheckDown) is unhealthy or fails > 0", 2)
	c14Avail(h, "R4")
}

// isNegatedReason: the atom says one of the two down-reasons does NOT hold (it only appears on fall-through paths).
func isNegatedReason(a guardInfo) bool {
	if x, kind, cst, ok := intCmp(a.Cond); ok && cst == 0 && atomicLoadOf(x, "Unhealthy") {
		return (kind == "ne" && !a.Pos) || (kind == "eq" && a.Pos)
	}
	if b, ok := a.Cond.(*ssa.BinOp); ok {
		if atomicLoadOf(b.X, "Fails") && readsField(b.Y, "MaxFails") {
			return (b.Op == token.GEQ && !a.Pos) || (b.Op == token.LSS && a.Pos)
		}
	}
	return false
}

func atomicLoadOf(v ssa.Value, field string) bool {
	c, ok := v.(*ssa.Call)
	if !ok || !strings.HasPrefix(calleeName(&c.Call), "sync/atomic.Load") {
		return false
	}
	fa, ok := c.Call.Args[0].(*ssa.FieldAddr)
	return ok && fieldName(fa.X.Type(), fa.Field) == field
}

// counterAdd: in (a call, defer or go) adds delta to the named counter field of an UpstreamHost — directly through
// sync/atomic, or by calling a module function whose every path performs exactly that on one of its parameters
// (a wrapper such as uh.release()).  obj is the host value at the site.
func counterAdd(in ssa.Instruction) (obj ssa.Value, field string, delta int64, ok bool) {
	c := callOf(in)
	if c == nil {
		return nil, "", 0, false
	}
	if addr, name, isAt := isAtomicCall(in); isAt {
		if !strings.HasPrefix(name, "Add") || len(c.Args) < 2 {
			return nil, "", 0, false
		}
		fa, isFA := addr.(*ssa.FieldAddr)
		if !isFA {
			return nil, "", 0, false
		}
		d, isC := constInt(c.Args[1])
		if !isC {
			return nil, "", 0, false
		}
		return fa.X, fieldName(fa.X.Type(), fa.Field), d, true
	}
	f := c.StaticCallee()
	if f == nil || len(f.Blocks) == 0 || fnPkg(f) == nil || !isModPkg(fnPkg(f).Path()) {
		return nil, "", 0, false
	}
	var site ssa.Instruction
	n := 0
	allInstrs(f, func(x ssa.Instruction) {
		if _, _, isAt := isAtomicCall(x); isAt {
			if _, isDefer := x.(*ssa.Defer); !isDefer {
				n++
				site = x
			}
		}
	})
	if n != 1 {
		return nil, "", 0, false
	}
	o, fld, d, ok2 := counterAdd(site)
	if !ok2 {
		return nil, "", 0, false
	}
	if fv, isFV := o.(*ssa.FreeVar); isFV {
		// a closure over the host: the object is what the closure was bound to
		mc, isMC := c.Value.(*ssa.MakeClosure)
		if !isMC {
			return nil, "", 0, false
		}
		for _, e := range exitsOf(f) {
			if rt, isR := e.(*ssa.Return); isR && !mustPass(f, rt, func(x ssa.Instruction) bool { return x == site }) {
				return nil, "", 0, false
			}
		}
		for k, x := range f.FreeVars {
			if x == fv && k < len(mc.Bindings) {
				b := mc.Bindings[k]
				if a, isA := b.(*ssa.Alloc); isA {
					if st := uniqueValues(storesTo(a)); len(st) == 1 {
						return st[0], fld, d, true
					}
				}
				return b, fld, d, true
			}
		}
		return nil, "", 0, false
	}
	if ld, isLd := o.(*ssa.UnOp); isLd {
		// the captured variable lives in a cell: *fv — the object is "whatever that variable holds"
		if _, isFV := ld.X.(*ssa.FreeVar); isFV && cellRoot(ld.X) != nil {
			for _, e := range exitsOf(f) {
				if rt, isR := e.(*ssa.Return); isR && !mustPass(f, rt, func(x ssa.Instruction) bool { return x == site }) {
					return nil, "", 0, false
				}
			}
			return ld, fld, d, true
		}
		return nil, "", 0, false
	}
	p, isP := o.(*ssa.Parameter)
	if !isP {
		return nil, "", 0, false
	}
	// on every path through the wrapper
	for _, e := range exitsOf(f) {
		if rt, isR := e.(*ssa.Return); isR && !mustPass(f, rt, func(x ssa.Instruction) bool { return x == site }) {
			return nil, "", 0, false
		}
	}
	for k, fp := range f.Params {
		if fp == p && k < len(c.Args) {
			return c.Args[k], fld, d, true
		}
	}
	return nil, "", 0, false
}

// callSitesOf: every call, defer and go of f in the module.
func callSitesOf(p *Program, f *ssa.Function) []ssa.Instruction {
	var out []ssa.Instruction
	for _, g := range p.ModFuncs() {
		allInstrs(g, func(in ssa.Instruction) {
			if c := callOf(in); c != nil && c.StaticCallee() == f {
				out = append(out, in)
			}
		})
	}
	return out
}

// cellRoot: the variable cell (an Alloc in some enclosing function) that an address denotes, following closure
// bindings upwards; nil if the address is not a captured variable.
func cellRoot(addr ssa.Value) *ssa.Alloc {
	for i := 0; i < 6; i++ {
		switch t := addr.(type) {
		case *ssa.Alloc:
			return t
		case *ssa.FreeVar:
			fn := t.Parent()
			if fn == nil || fn.Parent() == nil {
				return nil
			}
			idx := -1
			for k, fv := range fn.FreeVars {
				if fv == t {
					idx = k
				}
			}
			var bound ssa.Value
			allInstrs(fn.Parent(), func(in ssa.Instruction) {
				if mc, ok := in.(*ssa.MakeClosure); ok && mc.Fn == ssa.Value(fn) && idx >= 0 && idx < len(mc.Bindings) {
					bound = mc.Bindings[idx]
				}
			})
			if bound == nil {
				return nil
			}
			addr = bound
		default:
			return nil
		}
	}
	return nil
}

// sameObject: the two values denote the same host — the same SSA value, or loads of the same captured variable.
func sameObject(a, b ssa.Value) bool {
	if sameValue(a, b) {
		return true
	}
	la, oka := a.(*ssa.UnOp)
	lb, okb := b.(*ssa.UnOp)
	if oka && okb {
		ra, rb := cellRoot(la.X), cellRoot(lb.X)
		return ra != nil && ra == rb
	}
	return false
}

// c14Trace: the in-flight counter along the proxy's traces: 1 on the backend an attempt is being made on, 0 on every
// backend when the request is over, and one recorded failure per failed attempt on a backend with fail_timeout.
func c14Trace(h H) {
	r := h.r
	r.Rule("R7", "accounting along the proxy's traces (E10, the scripts of C05 R6): during every attempt the chosen backend's in-flight count is 1, after the request every backend's count is 0 again, and a backend with fail_timeout has exactly one recorded failure per failed attempt on it when the request ends (their expiry is R5's matter)", 2)
	t := proxyTraces(h)
	var pos token.Pos
	if fn := h.p.Func(pxPkg, "Proxy.ServeHTTP"); fn != nil {
		pos = fn.Pos()
	}
	n := sprintf("%d scripts evaluated", t.n)
	r.Check(t.conns == "" && t.other == "", "R7", "proxy.Proxy.ServeHTTP/in-flight-along-traces", pos, "the in-flight count is exact around every attempt", n, t.conns, t.other)
	r.Check(t.fails == "" && t.other == "", "R7", "proxy.Proxy.ServeHTTP/failures-along-traces", pos, "every failed attempt is recorded once on its backend", n, t.fails, t.other)
}

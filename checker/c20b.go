package main

import (
	"go/token"
	"strings"

	"golang.org/x/tools/go/ssa"
)

// c20R6: every byte is counted once.  Who may write ResponseRecorder.size: each store anywhere in the module must be
// `size + n` where every possible n is the byte count returned by a call made on the wrapped writer.  A count
// returned by a call that was itself handed the recorder (io.Copy into a wrapper of r, r.Write, …) has already been
// added by that inner call — adding it again doubles {size}.
// c20R6: every byte is counted once — decided from the recorder table (E10); the dataflow formulation (c20R6Patterns)
// is kept for reference and no longer registered.
func c20R6(h H) {
	r := h.r
	r.Rule("R6", "size accounting (E10 recorder table): over every evaluated sequence of header, body writes and ReadFrom, the recorder's size equals the number of bytes the wrapped writer reported taking — no byte counted twice, none uncounted", 1)
	t := recorderTable(h)
	var pos token.Pos
	if f := h.p.Func(hs, "(*ResponseRecorder).Write"); f != nil {
		pos = f.Pos()
	}
	r.Check(t.size == "" && t.other == "", "R6", "httpserver.(*ResponseRecorder)/size-is-bytes-taken", pos, "each body byte is counted exactly once", sprintf("%d scenarios evaluated", t.n), t.size, t.other)
}

func c20R6Patterns(h H) {
	r := h.r
	r.Rule("R6", "size accounting sites: every store to ResponseRecorder.size in the module adds to the previous size a count that, on every data path, is the result of a Write/ReadFrom call on the wrapped ResponseWriter (never the result of a call that was given the recorder itself, whose bytes were already counted)", 1)
	n := 0
	isRecorder := func(v ssa.Value) bool {
		return strings.HasSuffix(strings.TrimPrefix(v.Type().String(), "*"), hs+".ResponseRecorder")
	}
	for _, fn := range h.p.ModFuncs() {
		allInstrs(fn, func(in ssa.Instruction) {
			st, ok := in.(*ssa.Store)
			if !ok {
				return
			}
			fa, ok := st.Addr.(*ssa.FieldAddr)
			if !ok || !isRecorder(fa.X) || fieldName(fa.X.Type(), fa.Field) != "size" {
				return
			}
			if _, isAlloc := rootOf(fa.X).(*ssa.Alloc); isAlloc {
				return // constructor
			}
			n++
			construct := shortFunc(fn) + "/size-update"
			b, ok := st.Val.(*ssa.BinOp)
			if !ok || b.Op != token.ADD {
				r.Fail("R6", construct, st.Pos(), "the recorded size is overwritten instead of incremented", describe(st.Val))
				return
			}
			add := b.Y
			if !readsField(b.X, "size") {
				if !readsField(b.Y, "size") {
					r.Fail("R6", construct, st.Pos(), "the new size is not the old size plus a count", describe(st.Val))
					return
				}
				add = b.X
			}
			leaves, direct := phiLeaves(add)
			var vals []ssa.Value
			for _, l := range leaves {
				vals = append(vals, l.V)
			}
			vals = append(vals, direct...)
			ok2 := len(vals) > 0
			var facts []string
			for _, v := range vals {
				for {
					if c, isC := v.(*ssa.Convert); isC {
						v = c.X
						continue
					}
					break
				}
				facts = append(facts, describe(v))
				if c, isC := constInt(v); isC && c == 0 {
					continue
				}
				ex, isEx := v.(*ssa.Extract)
				if !isEx || ex.Index != 0 {
					ok2 = false
					continue
				}
				call, isCall := ex.Tuple.(*ssa.Call)
				if !isCall {
					ok2 = false
					continue
				}
				// receiver is the wrapped writer
				var recv ssa.Value
				if call.Call.IsInvoke() {
					recv = call.Call.Value
				} else if f := call.Call.StaticCallee(); f != nil && f.Signature.Recv() != nil && len(call.Call.Args) > 0 {
					recv = call.Call.Args[0]
				}
				wrapped := recv != nil && derives(recv, func(x ssa.Value) bool {
					return readsField(x, "ResponseWriterWrapper") || readsField(x, "ResponseWriter")
				}, flowOpts{})
				// no argument carries the recorder back in
				selfArg := false
				args := call.Call.Args
				if !call.Call.IsInvoke() && call.Call.StaticCallee() != nil && call.Call.StaticCallee().Signature.Recv() != nil && len(args) > 0 {
					args = args[1:]
				}
				for _, a := range args {
					if derives(a, func(x ssa.Value) bool {
						_, isP := x.(*ssa.Parameter)
						return isP && isRecorder(x)
					}, flowOpts{}) {
						selfArg = true
					}
				}
				m := calleeName(&call.Call)
				if call.Call.IsInvoke() {
					m = call.Call.Method.Name()
				}
				if !wrapped || selfArg || !(strings.HasSuffix(m, "Write") || strings.HasSuffix(m, "ReadFrom") || strings.HasSuffix(m, "WriteString")) {
					ok2 = false
				}
			}
			r.Check(ok2, "R6", construct, st.Pos(), "the count added is what the wrapped writer reported for a call made directly on it: each byte is counted exactly once", facts...)
		})
	}
	if n == 0 {
		r.Unresolve("R6", "no update of ResponseRecorder.size found in the module")
	}
}

// c20R7: "not excepted" is decided by the request as it arrived.  The log handler keeps a copy of the URL taken
// before the next handler ran (rewrite changes r.URL in place); the except test must read that copy.
// c20R7: decided from the table of the log handler (E10, loggerTable); the dataflow formulation (c20R7Patterns) is
// kept for reference and no longer registered.
func c20R7(h H) {
	r := h.r
	r.Rule("R7", "the log handler as a decision table (E10): Logger.ServeHTTP, evaluated for one and two rules (scope matching or not), two entries per rule (excepted or not), a next handler that rewrites r.URL.Path in place and reports 200 or an unwritten 404, with and without a custom error function: the except test of every entry is given the path as the client sent it, and every non-excepted entry of the governing rule gets exactly one line, every excepted one none; with two entries of which one or both have an ipmask, the client address is masked exactly in the lines of those", 3)
	t := loggerTable(h)
	var pos token.Pos
	if fn := h.p.Func(logPkg, "Logger.ServeHTTP"); fn != nil {
		pos = fn.Pos()
	}
	n := sprintf("%d cases evaluated", t.n)
	r.Check(t.path == "" && t.other == "", "R7", "(log.Logger).ServeHTTP/except-tests-received-path", pos, "whether a request is excepted from logging is decided by the path the client sent", n, t.path, t.other)
	r.Check(t.lines == "" && t.other == "", "R7", "(log.Logger).ServeHTTP/one-line-per-entry", pos, "every configured log of the governing rule that is not excepted gets exactly one line per request", n, t.lines, t.other)
	r.Check(t.mask == "" && t.other == "", "R7", "(log.Logger).ServeHTTP/ipmask-per-entry", pos, "the client address is masked in the lines of the logs that have an ipmask, and only there", n, t.mask, t.other)
}

func c20R7Patterns(h H) {
	r := h.r
	r.Rule("R7", "except is tested on the path as received: every ShouldLog call of the log handler is given the Path field of a local URL copy that is stored, on every path, before the Next.ServeHTTP invoke (not r.URL.Path as left behind by rewrite or other handlers)", 1)
	fn := h.fn("R7", logPkg, "Logger.ServeHTTP")
	if fn == nil {
		return
	}
	nx := nextInvokes(fn)
	n := 0
	for _, g := range withClosures(fn) {
		for _, c := range findCalls(g, func(in ssa.Instruction) bool {
			cc := callOf(in)
			return cc != nil && strings.HasSuffix(calleeName(cc), "Logger).ShouldLog")
		}) {
			n++
			arg := callOf(c).Args[len(callOf(c).Args)-1]
			ok := false
			var why string
			if ld, isLoad := arg.(*ssa.UnOp); isLoad && ld.Op == token.MUL {
				if fa, isFA := ld.X.(*ssa.FieldAddr); isFA && fieldName(fa.X.Type(), fa.Field) == "Path" {
					if a, isAlloc := fa.X.(*ssa.Alloc); isAlloc && a.Parent() == fn {
						// every Next invoke that can precede this call is itself preceded by the snapshot store
						snap := func(in ssa.Instruction) bool {
							st, isSt := in.(*ssa.Store)
							return isSt && st.Addr == ssa.Value(a)
						}
						ok = true
						for _, nxt := range nx {
							if g == fn && !canReach(fn, nxt, c, cut{}) {
								continue
							}
							if !mustPass(fn, nxt, snap) {
								ok = false
								why = "the URL copy is not made before the next handler runs"
							}
							// and never stored again afterwards
							reach(fn, nxt, cut{}, func(in ssa.Instruction) bool {
								if snap(in) {
									ok = false
									why = "the URL copy is overwritten after the next handler ran"
								}
								return ok
							})
						}
					} else {
						why = "reads " + describe(arg) + ", not a local snapshot"
					}
				}
			}
			if why == "" && !ok {
				why = "argument " + describe(arg)
			}
			r.Check(ok, "R7", sprintf("%s/except-tests-received-path#%d", shortFunc(g), n), c.Pos(), "whether a request is excepted from logging is decided by the path the client sent", why)
		}
	}
	if n == 0 {
		r.Unresolve("R7", "Logger.ServeHTTP: no ShouldLog call")
	}
}

// c20SetVerbatim: custom placeholder values are published verbatim.  Handlers publish request text through
// Replacer.Set (the user name of a failed login, rewrite captures); Set must keep the text as given — if it expanded
// it, a client could have its own placeholders evaluated the next time the value is logged.
func c20SetVerbatim(h H) {
	r := h.r
	fn := h.fn("R2", hs, "(*replacer).Set")
	if fn == nil {
		return
	}
	n := 0
	for _, g := range withHelpers(fn, 2) {
		allInstrs(g, func(in ssa.Instruction) {
			mu, ok := in.(*ssa.MapUpdate)
			if !ok {
				return
			}
			n++
			verbatim := allFlowsThrough(mu.Value, func(v ssa.Value) bool {
				_, isParam := v.(*ssa.Parameter)
				return isParam
			}, false)
			throughCall := derives(mu.Value, func(v ssa.Value) bool {
				_, isCall := v.(*ssa.Call)
				return isCall
			}, flowOpts{})
			r.Check(verbatim && !throughCall, "R2", "httpserver.(*replacer).Set/value-stored-verbatim", in.Pos(), "the value published for a custom placeholder is the caller's text itself, not the result of expanding or otherwise transforming it", describe(mu.Value))
		})
	}
	if n == 0 {
		r.Unresolve("R2", "(*replacer).Set: no map update found")
	}
}

package main

import (
	"go/token"
	"go/types"
	"sort"
	"strings"

	"golang.org/x/tools/go/ssa"
)

// bodyInterposers: the named struct types of the module that are response writers (implement http.ResponseWriter
// through an embedded one) and declare Write themselves — they do something to the body on its way to the client
// (compress it, count it, buffer it, limit it).
func bodyInterposers(p *Program) []*types.Named {
	rw, _ := p.typeByName("net/http", "ResponseWriter").Underlying().(*types.Interface)
	if rw == nil {
		return nil
	}
	var out []*types.Named
	for path, pk := range p.ByPath {
		if !isModPkg(path) || pk.Types == nil {
			continue
		}
		sc := pk.Types.Scope()
		for _, n := range sc.Names() {
			tn, ok := sc.Lookup(n).(*types.TypeName)
			if !ok || tn.IsAlias() {
				continue
			}
			named, ok := tn.Type().(*types.Named)
			if !ok {
				continue
			}
			if _, isStruct := named.Underlying().(*types.Struct); !isStruct {
				continue
			}
			ptr := types.NewPointer(named)
			if !types.Implements(ptr, rw) {
				continue
			}
			sel := types.NewMethodSet(ptr).Lookup(pk.Types, "Write")
			if sel == nil || len(sel.Index()) != 1 {
				continue // Write is the embedded writer's: the type does not touch the body
			}
			out = append(out, named)
		}
	}
	sort.Slice(out, func(i, j int) bool { return out[i].String() < out[j].String() })
	return out
}

// bodyBypassRule: a response writer that does something to the body in Write must not offer another way for body
// bytes to reach the wrapped writer.  io.Copy and io.WriteString prefer ReadFrom / WriteString when the destination
// has them; if such a method is inherited from an embedded type, whatever is written through it goes around Write —
// uncompressed bytes inside a gzip stream, bytes the access log never counted, bytes past a limit.
// filter selects the types to register (nil: all).
func bodyBypassRule(h H, rule string, min int, filter func(*types.Named) bool) {
	r := h.r
	r.Rule(rule, "no way around Write: for every response-writer type of the module that declares its own Write (computed on every run: gzip's writers, the recorder, the buffer, …) the other body-carrying methods io.Copy and io.WriteString look for — ReadFrom, WriteString — are either absent from its method set or declared by the type itself, never inherited from an embedded writer; likewise FlushError (preferred over Flush by http.ResponseController) for a type that declares its own Flush", min)
	n := 0
	for _, t := range bodyInterposers(h.p) {
		if filter != nil && !filter(t) {
			continue
		}
		n++
		ms := types.NewMethodSet(types.NewPointer(t))
		var inherited []string
		declaresFlush := false
		for i := 0; i < ms.Len(); i++ {
			if sel := ms.At(i); sel.Obj().Name() == "Flush" && len(sel.Index()) == 1 {
				declaresFlush = true
			}
		}
		for i := 0; i < ms.Len(); i++ {
			sel := ms.At(i)
			nm := sel.Obj().Name()
			// FlushError is what http.ResponseController (and wrappers written for it) call in preference to Flush: a
			// type that has something to do at flush time (gzip decides and flushes its compressor there) and inherits
			// FlushError from the wrapper it embeds is flushed around
			if (nm == "ReadFrom" || nm == "WriteString" || (nm == "FlushError" && declaresFlush)) && len(sel.Index()) > 1 {
				inherited = append(inherited, nm+" (from "+types.TypeString(sel.Obj().(*types.Func).Type().(*types.Signature).Recv().Type(), nil)+")")
			}
		}
		short := t.Obj().Pkg().Name() + "." + t.Obj().Name()
		r.Check(len(inherited) == 0, rule, short+"/no-inherited-body-method", t.Obj().Pos(), "every body byte passes the type's own Write (or a method the type declares for the purpose)", strings.Join(inherited, ", "))
	}
	if n < min {
		r.Unresolve(rule, sprintf("only %d body-interposing response writers found", n))
	}
}

// forwardedBytesCounted: in the methods a type declares for body bytes, every call that hands bytes to the wrapped
// writer is followed, on every path to a return, by an update of the given counter field.
func forwardedBytesCounted(h H, rule string, typeSuffix, field string) {
	r := h.r
	n := 0
	for _, fn := range h.p.ModFuncs() {
		recv := fn.Signature.Recv()
		if recv == nil || !strings.HasSuffix(derefType(recv.Type()).String(), typeSuffix) {
			continue
		}
		if nm := fn.Name(); nm != "Write" && nm != "ReadFrom" && nm != "WriteString" {
			continue
		}
		isWrapped := func(v ssa.Value) bool {
			return derives(v, func(x ssa.Value) bool {
				fa, ok := x.(*ssa.FieldAddr)
				if !ok {
					return false
				}
				f := fieldName(fa.X.Type(), fa.Field)
				return f == "ResponseWriter" || f == "ResponseWriterWrapper"
			}, flowOpts{})
		}
		isCount := func(in ssa.Instruction) bool {
			st, ok := in.(*ssa.Store)
			if !ok {
				return false
			}
			fa, ok := st.Addr.(*ssa.FieldAddr)
			return ok && fieldName(fa.X.Type(), fa.Field) == field
		}
		allInstrs(fn, func(in ssa.Instruction) {
			c := callOf(in)
			if c == nil {
				return
			}
			forwards := false
			if c.IsInvoke() {
				switch c.Method.Name() {
				case "Write", "ReadFrom", "WriteString":
					forwards = isWrapped(c.Value)
				}
			} else {
				for _, a := range c.Args {
					if _, isIface := a.Type().Underlying().(*types.Interface); isIface && isWrapped(a) {
						forwards = true
					}
					if p, isPtr := a.Type().Underlying().(*types.Pointer); isPtr && strings.HasSuffix(p.Elem().String(), "ResponseWriterWrapper") && isWrapped(a) {
						forwards = true
					}
				}
				if f := c.StaticCallee(); f != nil && f.Signature.Recv() != nil && len(c.Args) > 0 && isWrapped(c.Args[0]) {
					switch f.Name() {
					case "Write", "ReadFrom", "WriteString":
						forwards = true
					default:
						forwards = false
					}
				}
			}
			if !forwards {
				return
			}
			n++
			// the count may be skipped where the forwarding call itself reported an error
			errEdges := nilEdges(fn, false, func(x ssa.Value) bool {
				ex, ok := x.(*ssa.Extract)
				return ok && ex.Tuple == in.(ssa.Value) && ex.Index == 1
			})
			var ret ssa.Instruction
			reach(fn, in, cut{instr: isCount, edges: errEdges}, func(x ssa.Instruction) bool {
				if _, ok := x.(*ssa.Return); ok {
					ret = x
					return false
				}
				return true
			})
			leaks := ret != nil
			pos := token.NoPos
			if ret != nil {
				pos = ret.Pos()
			}
			r.Check(!leaks, rule, shortFunc(fn)+"/forwarded-bytes-counted", in.Pos(), "bytes handed to the wrapped writer here are added to "+field+" on every path to a return (the path on which the call itself failed excepted)", "a return is reached without the update: "+h.p.Pos(pos))
		})
	}
	if n == 0 {
		r.Unresolve(rule, "no call forwarding body bytes found in the methods of "+typeSuffix)
	}
}

package main

import (
	"fmt"
	"go/types"
	"strings"
)

// c01R7: the routing table of the server as NewServer wires it (E10).
//
// R6 decides the trie on its own.  What a request meets, though, is the trie NewServer builds: the keys it inserts
// the sites under (Address.VHost: the address as written, scheme stripped — any letter case, with port and path),
// and the fallback host list it hands the trie (the catch-all hosts plus what getFallbacks reports for the sites
// designated as fallback).  The two only work together if the fallback entry of a site is the very host key the
// trie filed the site under.  NewServer is evaluated for groups of sites written in several forms; then Match is
// evaluated on the trie found in the returned server, for the sites' own hosts and for a host no site has.
func c01R7(h H) {
	r := h.r
	r.Rule("R7", "the server's routing table as NewServer builds it (E10): for every group of one or two sites whose addresses are written as host, HOST:port, host:port/x or scheme://Host:port (labels opaque, any letter case), each possibly designated a fallback site, and a catch-all site present or not, NewServer (the http.Server construction and TLS set-up being oracles) yields a server whose trie sends a request for a site's own host (other letter case, with or without port) to that site, and a request for a host no site has to the catch-all site, else to the designated fallback site whose path prefix matches, else to no site", 1)
	ns := h.fn("R7", hs, "NewServer")
	match := h.fn("R7", hs, "(*vhostTrie).Match")
	if ns == nil || match == nil {
		return
	}
	groupT, ok := ns.Params[1].Type().Underlying().(*types.Slice)
	if !ok {
		r.Unresolve("R7", "NewServer: second parameter is not a slice of sites")
		return
	}
	sitePT, ok := groupT.Elem().(*types.Pointer)
	if !ok {
		r.Unresolve("R7", "NewServer: the group is not a slice of site pointers")
		return
	}
	siteT := sitePT.Elem()
	srvT := ns.Signature.Results().At(0).Type().(*types.Pointer).Elem()
	// the server's field holding the trie, by type
	trieField := ""
	if st, ok := underlying(srvT).(*types.Struct); ok {
		for i := 0; i < st.NumFields(); i++ {
			if p, ok := st.Field(i).Type().(*types.Pointer); ok && p.Elem() == match.Params[0].Type().(*types.Pointer).Elem() {
				trieField = st.Field(i).Name()
			}
		}
	}
	var httpSrvT types.Type = types.Typ[types.Int]
	if st, ok := underlying(srvT).(*types.Struct); ok {
		for i := 0; i < st.NumFields(); i++ {
			if p, ok := st.Field(i).Type().(*types.Pointer); ok && strings.HasSuffix(p.Elem().String(), "net/http.Server") {
				httpSrvT = p.Elem()
			}
		}
	}
	if trieField == "" {
		r.Unresolve("R7", "Server: no field of the trie's type")
		return
	}
	lab := func(name string, cv int) atom { return atom{sym: name, cv: cv} }
	dot := atom{lit: "."}
	x := symByte("x")
	type form struct {
		name string
		orig func(l [3]string, cv int) []atom
		path []string
	}
	host3 := func(l [3]string, cv int) []atom {
		return []atom{lab(l[0], cv), dot, lab(l[1], cv), dot, lab(l[2], cv)}
	}
	forms := []form{
		{"host", func(l [3]string, cv int) []atom { return host3(l, 1) }, nil},
		{"HOST:8080", func(l [3]string, cv int) []atom { return append(host3(l, 2), atom{lit: ":8080"}) }, nil},
		{"host:8080/x", func(l [3]string, cv int) []atom { return append(host3(l, 1), atom{lit: ":8080/"}, x) }, []string{"x"}},
		{"http://Host:8080", func(l [3]string, cv int) []atom {
			return append([]atom{{lit: "http://"}}, append(host3(l, 3), atom{lit: ":8080"})...)
		}, nil},
	}
	names := [][3]string{{"A", "B", "C"}, {"D", "E", "F"}}
	type siteSpec struct {
		form     int
		fallback bool
		catchAll bool
	}
	var groups [][]siteSpec
	for f := range forms {
		for _, fb := range []bool{false, true} {
			groups = append(groups, []siteSpec{{form: f, fallback: fb}})
			groups = append(groups, []siteSpec{{form: f, fallback: fb}, {catchAll: true}})
			for g := range forms {
				groups = append(groups, []siteSpec{{form: g}, {form: f, fallback: fb}})
				groups = append(groups, []siteSpec{{form: f, fallback: fb}, {form: g}})
			}
		}
	}
	type reqT struct {
		name string
		host []atom
		path []atom
		pb   []string
		own  int // index of the site whose host this is, -1: unknown host
	}
	sl := atom{lit: "/"}
	bad := ""
	nsrv, nmatch := 0, 0
	for _, g := range groups {
		if bad != "" {
			break
		}
		var desc []string
		sites := make([]*aobj, len(g))
		for i, sp := range g {
			var orig []atom
			var hostLower aval
			d := "(catch-all) :8080"
			if sp.catchAll {
				orig = []atom{{lit: ":8080"}}
				hostLower = astr("")
			} else {
				orig = forms[sp.form].orig(names[i], 0)
				hostLower = mkStr([]atom{{sym: names[i][0], lower: true}, dot, {sym: names[i][1], lower: true}, dot, {sym: names[i][2], lower: true}})
				d = strings.NewReplacer("host", strings.ToLower(strings.Join(names[i][:], ".")), "HOST", strings.Join(names[i][:], "."), "Host", strings.Join(names[i][:], ".")).Replace(forms[sp.form].name)
				if sp.fallback {
					d += " (designated fallback)"
				}
			}
			desc = append(desc, d)
			fb := sp.fallback
			o := mkStr(orig)
			hl := hostLower
			sites[i] = &aobj{name: fmt.Sprintf("site%d", i), typ: siteT, f: map[string]aval{}, in: func(ob *aobj, path string, t types.Type) aval {
				switch path {
				case "Addr.Original":
					return o
				case "Addr.Host":
					return hl
				case "FallbackSite":
					return abool(fb)
				}
				if _, isSl := underlying(t).(*types.Slice); isSl {
					return anil{}
				}
				return unsetField("site field", path, t)
			}}
		}
		env := &absEnv{globals: map[string]*aobj{}, noFork: true, maxSteps: 400000}
		env.ext = func(callee string, args []aval) (aval, bool) {
			switch {
			case strings.HasSuffix(callee, "makeHTTPServerWithTimeouts"):
				return aptr{&aobj{name: "http.Server", typ: httpSrvT, f: map[string]aval{}}, ""}, true
			case strings.HasSuffix(callee, "makeHTTPServerWithHeaderLimit"):
				return args[0], true
			case strings.HasSuffix(callee, "makeTLSConfig"):
				return atuple{anil{}, anil{}}, true
			}
			return nil, false
		}
		res, und := env.run(ns, []aval{astr("127.0.0.1:8080"), aslice{sites}})
		nsrv++
		where := "sites [" + strings.Join(desc, ", ") + "]"
		if und != "" {
			bad = where + ": NewServer undecided — " + und
			break
		}
		tp, ok := res.(atuple)
		var srv aptr
		if ok && len(tp) == 2 {
			srv, ok = tp[0].(aptr)
		}
		if !ok {
			bad = where + ": NewServer returned " + describeAval(res)
			break
		}
		trie := env.load(srv.obj, joinPath(srv.path, trieField))
		if _, ok := trie.(aptr); !ok {
			bad = where + ": the server's trie is " + describeAval(trie)
			break
		}
		var reqs []reqT
		for i, sp := range g {
			if sp.catchAll {
				continue
			}
			hostUp := []atom{lab(names[i][0], 2), dot, lab(names[i][1], 2), dot, lab(names[i][2], 2)}
			reqs = append(reqs, reqT{"its own host, path /x", hostUp, []atom{sl, x}, []string{"x"}, i})
			// the lookup key may still carry the port (Match strips it as Insert does)
			reqs = append(reqs, reqT{"its own host with port :8080, path /x", append(append([]atom{}, hostUp...), atom{lit: ":8080"}), []atom{sl, x}, []string{"x"}, i})
		}
		unk := []atom{lab("U", 2), dot, lab("V", 2), dot, lab("W", 2)}
		reqs = append(reqs, reqT{"unknown host U.V.W, path /", unk, []atom{sl}, nil, -1}, reqT{"unknown host U.V.W, path /x", unk, []atom{sl, x}, []string{"x"}, -1})
		prefixOK := func(i int, pb []string) bool {
			if g[i].catchAll {
				return true
			}
			sp := forms[g[i].form].path
			if len(sp) > len(pb) {
				return false
			}
			for k := range sp {
				if sp[k] != pb[k] {
					return false
				}
			}
			return true
		}
		for _, rq := range reqs {
			key := mkStr(append(append([]atom{}, rq.host...), rq.path...))
			res, und := env.run(match, []aval{trie, key})
			nmatch++
			if und != "" {
				bad = where + ", request for " + rq.name + ": Match undecided — " + und
				break
			}
			got := -2
			if tp, ok := res.(atuple); ok && len(tp) == 2 {
				switch v := tp[0].(type) {
				case anil:
					got = -1
				case aptr:
					for i, s := range sites {
						if v.obj == s {
							got = i
						}
					}
				}
			}
			// specification: the own host's site when its prefix matches; for an unknown host the catch-all, else
			// the designated fallback whose prefix matches; else nothing
			want := -1
			if rq.own >= 0 {
				if prefixOK(rq.own, rq.pb) {
					want = rq.own
				}
			} else {
				for i, sp := range g {
					if sp.catchAll {
						want = i
					}
				}
				if want < 0 {
					for i, sp := range g {
						if sp.fallback && prefixOK(i, rq.pb) {
							want = i
							break
						}
					}
				}
			}
			// a request for a known host whose site's prefix does not match is outside this table (R6 covers it)
			if rq.own >= 0 && want < 0 {
				continue
			}
			if got != want {
				name := func(i int) string {
					if i < 0 {
						return "no site"
					}
					if i >= len(desc) {
						return "something else"
					}
					return desc[i]
				}
				bad = fmt.Sprintf("%s, request for %s: specification says %s, the server's trie returns %s", where, rq.name, name(want), name(got))
				break
			}
		}
	}
	r.Check(bad == "", "R7", "httpserver.NewServer/server-routing-table", ns.Pos(),
		"the trie NewServer builds files every site under the host the request will carry and finds designated fallback sites for hosts no site has",
		fmt.Sprintf("%d servers built, %d lookups evaluated", nsrv, nmatch), bad)
}

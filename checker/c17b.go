package main

import (
	"fmt"
	"go/types"
	"math"
	"sort"
	"strings"
)

// c17R5: what the two directives store is what was written (E10).  The merge rules of R4 and the reader of R2 work
// on the values found in the site config; these tables decide that the `limits` and `timeouts` parsers put there
// exactly the scopes and values of the Casketfile — every body limit under its own path as written (a trailing
// slash is part of the scope: /upload/ does not cover /uploads), every timeout of every `timeouts` line of the site.
func c17R5(h H) {
	r := h.r
	r.Rule("R5", "configured limits as decision tables (E10): parseLimits, evaluated on two `limits` blocks of one site with body limits for /upload/, /api, a relative path and the default, and a header limit (sizes an oracle), stores each body limit under the scope it was written for in the form scopes are matched in (rooted, cleaned, trailing slash kept) and the header limit in the site config; parseSize, evaluated on a table of size spellings, gives the byte count or refuses — never a wrapped-around count; setupTimeouts, evaluated on two `timeouts` blocks of one site, leaves every timeout either block sets in the site config", 3)
	// ---- limits
	if fn := h.fn("R5", "caskethttp/limits", "parseLimits"); fn != nil {
		ctlT := fn.Params[0].Type().(*types.Pointer).Elem()
		// two limits directives of one site (a shared snippet and the site's own, say)
		lines := [][]string{{"limits", "{"}, {"body", "/upload/", "1kb"}, {"body", "/api", "2kb"}, {"}"}, {"limits", "{"}, {"body", "rel/", "3kb"}, {"body", "/deep///", "6kb"}, {"body", "/deep/./er", "7kb"}, {"body", "5kb"}, {"header", "4kb"}, {"}"}}
		sizes := map[string]int64{"1kb": 1024, "2kb": 2048, "3kb": 3072, "5kb": 5120, "4kb": 4096, "6kb": 6144, "7kb": 7168}
		// scopes are matched in their cleaned form (Path.Matches cleans both sides), so that is the form "longest
		// first" has to order: /deep/// is the scope /deep/, /deep/./er the scope /deep/er
		want := map[string]int64{"/upload/": 1024, "/api": 2048, "/rel/": 3072, "/": 5120, "/deep/": 6144, "/deep/er": 7168}
		c := mkController(ctlT, lines)
		var cfgT types.Type = types.Typ[types.Int]
		if g := h.p.Func(hs, "GetConfig"); g != nil {
			if p, ok := g.Signature.Results().At(0).Type().(*types.Pointer); ok {
				cfgT = p.Elem()
			}
		}
		cfg := &aobj{name: "siteconfig", typ: cfgT, f: map[string]aval{}}
		bad := ""
		if c == nil {
			bad = "casket.Controller: embedded dispenser not found"
		} else {
			env := &absEnv{globals: map[string]*aobj{}, noFork: true, maxSteps: 400000}
			env.ext = func(callee string, args []aval) (aval, bool) {
				switch {
				case strings.HasSuffix(callee, "httpserver.GetConfig"):
					return aptr{cfg, ""}, true
				case strings.HasSuffix(callee, "limits.parseSize"):
					if s, ok := args[0].(astr); ok {
						if v, ok := sizes[strings.ToLower(string(s))]; ok {
							return aint(v), true
						}
						return aint(-1), true
					}
				}
				return nil, false
			}
			res, und := env.run(fn, []aval{aptr{c, ""}})
			text := "`limits { body /upload/ 1kb ⏎ body /api 2kb } ⏎ limits { body rel/ 3kb ⏎ body /deep/// 6kb ⏎ body /deep/./er 7kb ⏎ body 5kb ⏎ header 4kb }`"
			tp, ok := res.(atuple)
			switch {
			case und != "":
				bad = text + ": undecided — " + und
			case !ok || len(tp) != 2:
				bad = text + ": unexpected result " + describeAval(res)
			default:
				if _, isNil := tp[1].(anil); !isNil {
					bad = text + ": rejected: " + describeAval(tp[1])
					break
				}
				got := map[string]int64{}
				if sl, ok := tp[0].(avals); ok {
					for _, cl := range sl.cells {
						p, ok1 := env.load(cl, "Path").(astr)
						l, ok2 := env.load(cl, "Limit").(aint)
						if !ok1 || !ok2 {
							bad = text + ": a stored limit is " + describeAval(env.load(cl, "Path")) + " → " + describeAval(env.load(cl, "Limit"))
							break
						}
						got[string(p)] = int64(l)
					}
				} else {
					bad = text + ": the list of body limits is " + describeAval(tp[0])
				}
				if bad == "" {
					var ks []string
					for k, v := range got {
						ks = append(ks, fmt.Sprintf("%s→%d", k, v))
					}
					sort.Strings(ks)
					for k, v := range want {
						if got[k] != v {
							bad = fmt.Sprintf("%s: the body limit written for the scope %q (%d bytes) is not stored under that scope (in the cleaned form scopes are matched and ordered in); stored: %s", text, k, v, strings.Join(ks, ", "))
							break
						}
					}
					if len(got) != len(want) && bad == "" {
						bad = fmt.Sprintf("%s: %d body limits written, stored: %s", text, len(want), strings.Join(ks, ", "))
					}
				}
				if hl, _ := env.load(cfg, "Limits.MaxRequestHeaderSize").(aint); int64(hl) != 4096 && bad == "" {
					bad = fmt.Sprintf("%s: the header limit in the site config is %s", text, describeAval(env.load(cfg, "Limits.MaxRequestHeaderSize")))
				}
			}
		}
		r.Check(bad == "", "R5", "limits.parseLimits/limits-as-written", fn.Pos(), "every configured body limit is stored under exactly the path it was written for", bad)
	}
	// ---- sizes
	if fn := h.fn("R5", "caskethttp/limits", "parseSize"); fn != nil {
		cases := []struct {
			in   string
			want int64
		}{
			{"5", 5}, {"5b", 5}, {"1kb", 1024}, {"2KB", 2048}, {"3mb", 3 << 20}, {"1gb", 1 << 30}, {"0", 0},
			{"9223372036854775807", math.MaxInt64}, {"8589934591gb", 8589934591 << 30},
			{"x", -1}, {"", -1}, {"kb", -1}, {"1tb", -1}, {"1.5kb", -1},
			// byte counts beyond 63 bits: refused, never a small wrapped-around limit
			{"9223372036854775808", -1}, {"18014398509481985kb", -1}, {"9007199254740992kb", -1}, {"8589934592gb", -1}, {"17592186044416mb", -1},
		}
		bad, nrun := "", 0
		for _, c := range cases {
			env := &absEnv{globals: map[string]*aobj{}, noFork: true, maxSteps: 50000}
			res, und := env.run(fn, []aval{astr(c.in)})
			nrun++
			if und != "" {
				bad = fmt.Sprintf("parseSize(%q): undecided — %s", c.in, und)
				break
			}
			got, ok := res.(aint)
			if !ok {
				bad = fmt.Sprintf("parseSize(%q): result %s", c.in, describeAval(res))
				break
			}
			if c.want < 0 && int64(got) >= 0 {
				bad = fmt.Sprintf("parseSize(%q) = %d: a size that is not a representable byte count must be refused (negative), or the site silently gets a limit nobody wrote", c.in, int64(got))
				break
			}
			if c.want >= 0 && int64(got) != c.want {
				bad = fmt.Sprintf("parseSize(%q) = %d, the configuration says %d bytes", c.in, int64(got), c.want)
				break
			}
		}
		r.Check(bad == "", "R5", "limits.parseSize/sizes-as-written", fn.Pos(), "a written size is the byte count it spells, or is refused", fmt.Sprintf("%d spellings", nrun), bad)
	}
	// ---- timeouts
	if fn := h.fn("R5", "caskethttp/timeouts", "setupTimeouts"); fn != nil {
		ctlT := fn.Params[0].Type().(*types.Pointer).Elem()
		lines := [][]string{{"timeouts", "{"}, {"read", "10s"}, {"header", "5s"}, {"}"}, {"timeouts", "{"}, {"write", "20s"}, {"}"}}
		c := mkController(ctlT, lines)
		var cfgT types.Type = types.Typ[types.Int]
		if g := h.p.Func(hs, "GetConfig"); g != nil {
			if p, ok := g.Signature.Results().At(0).Type().(*types.Pointer); ok {
				cfgT = p.Elem()
			}
		}
		cfg := &aobj{name: "siteconfig", typ: cfgT, f: map[string]aval{}}
		durs := map[string]int64{"10s": 10e9, "5s": 5e9, "20s": 20e9}
		bad := ""
		if c == nil {
			bad = "casket.Controller: embedded dispenser not found"
		} else {
			env := &absEnv{globals: map[string]*aobj{}, noFork: true, maxSteps: 400000}
			env.ext = func(callee string, args []aval) (aval, bool) {
				switch {
				case strings.HasSuffix(callee, "httpserver.GetConfig"):
					return aptr{cfg, ""}, true
				case callee == "time.ParseDuration" || strings.HasSuffix(callee, "casket.ParseDuration"):
					if s, ok := args[0].(astr); ok {
						if v, ok := durs[string(s)]; ok {
							return atuple{aint(v), anil{}}, true
						}
					}
				}
				return nil, false
			}
			res, und := env.run(fn, []aval{aptr{c, ""}})
			text := "`timeouts { read 10s ⏎ header 5s } ⏎ timeouts { write 20s }`"
			switch {
			case und != "":
				bad = text + ": undecided — " + und
			default:
				if _, isNil := res.(anil); !isNil {
					bad = text + ": rejected: " + describeAval(res)
					break
				}
				for _, w := range []struct {
					f string
					v int64
				}{{"ReadTimeout", 10e9}, {"ReadHeaderTimeout", 5e9}, {"WriteTimeout", 20e9}} {
					v, _ := env.load(cfg, "Timeouts."+w.f).(aint)
					set, _ := env.load(cfg, "Timeouts."+w.f+"Set").(abool)
					if int64(v) != w.v || !bool(set) {
						bad = fmt.Sprintf("%s: the site's %s is %s (set=%s); the configuration says %d ns", text, w.f, describeAval(env.load(cfg, "Timeouts."+w.f)), describeAval(env.load(cfg, "Timeouts."+w.f+"Set")), w.v)
						break
					}
				}
				if set, _ := env.load(cfg, "Timeouts.IdleTimeoutSet").(abool); bool(set) && bad == "" {
					bad = text + ": the idle timeout, which no line sets, is marked as set"
				}
			}
		}
		r.Check(bad == "", "R5", "timeouts.setupTimeouts/timeouts-as-written", fn.Pos(), "every timeout any `timeouts` line of the site sets is in the site config", bad)
	}
}

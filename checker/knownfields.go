package main

import (
	_ "embed"
	"fmt"
	"go/types"
	"sort"
	"strings"
)

// The struct fields of the code the decision tables were confirmed against ("pkgdir:Type.Field", one per line;
// regenerate with `casketlint dumpfields > checker/known_fields.txt`).  A field that is not in this list is new:
// when a table's hand-built input object is asked for it, the answer is the field's zero value — what an object
// has for a field its construction knows nothing about — instead of "unknown".  So additive bookkeeping (counters,
// flags, cached copies) does not make a table undecided; a new field that changes what the table observes still
// shows, because its zero value is then what the code under evaluation really starts from.
//
//go:embed known_fields.txt
var knownFieldsTxt string

var knownFields = func() map[string]bool {
	m := map[string]bool{}
	for _, l := range strings.Split(knownFieldsTxt, "\n") {
		if l = strings.TrimSpace(l); l != "" {
			m[l] = true
		}
	}
	return m
}()

func fieldKey(n *types.Named, field string) string {
	if n.Obj().Pkg() == nil {
		return ""
	}
	rel := strings.TrimPrefix(strings.TrimPrefix(n.Obj().Pkg().Path(), modPath), "/")
	if rel == "" {
		rel = "."
	}
	return rel + ":" + n.Obj().Name() + "." + field
}

// isNewFieldPath: does the leaf path (a.b.c), starting at type t, pass through a struct field of a module type that
// the baseline does not have?
func isNewFieldPath(t types.Type, path string) bool {
	if len(knownFields) == 0 || path == "" {
		return false
	}
	cur := t
	for _, seg := range strings.Split(path, ".") {
		if strings.HasPrefix(seg, "#") || strings.HasPrefix(seg, "·") {
			return false
		}
		if p, ok := cur.Underlying().(*types.Pointer); ok {
			cur = p.Elem()
		}
		st, ok := cur.Underlying().(*types.Struct)
		if !ok {
			return false
		}
		var fld *types.Var
		for i := 0; i < st.NumFields(); i++ {
			if st.Field(i).Name() == seg {
				fld = st.Field(i)
			}
		}
		if fld == nil {
			return false
		}
		if n, ok := types.Unalias(cur).(*types.Named); ok && n.Obj().Pkg() != nil && isModPkg(n.Obj().Pkg().Path()) {
			if k := fieldKey(n, seg); k != "" && !knownFields[k] {
				return true
			}
		}
		cur = fld.Type()
	}
	return false
}

func init() {
	debugCmds["dumpfields"] = func(prog *Program) {
		var out []string
		for _, pk := range prog.SSA.AllPackages() {
			if pk.Pkg == nil || !isModPkg(pk.Pkg.Path()) {
				continue
			}
			sc := pk.Pkg.Scope()
			for _, name := range sc.Names() {
				tn, ok := sc.Lookup(name).(*types.TypeName)
				if !ok {
					continue
				}
				n, ok := types.Unalias(tn.Type()).(*types.Named)
				if !ok {
					continue
				}
				st, ok := n.Underlying().(*types.Struct)
				if !ok {
					continue
				}
				for i := 0; i < st.NumFields(); i++ {
					out = append(out, fieldKey(n, st.Field(i).Name()))
				}
			}
		}
		sort.Strings(out)
		for _, l := range out {
			fmt.Println(l)
		}
	}
}

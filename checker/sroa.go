package main

// Scalar replacement of new aggregates (third part of source normalisation).
// A refactoring that bundles a few locals into a small new unexported struct
// ("pass the ports through a redirectPorts value", "return an authOutcome")
// moves flags and bounds out of SSA registers into struct fields in memory,
// where go/ssa builds no φ-nodes and the value-flow rules cannot follow them.
// After the helpers that took or returned such a struct have been inlined,
// every local variable whose type is a struct type that the baseline code
// did not have, and that is only ever used field-wise or copied whole
// to/from other such variables and literals, is split into one local per
// field.  The result is the code as it would look without the struct.

import (
	"bytes"
	"fmt"
	"go/ast"
	"go/format"
	"go/printer"
	"go/token"
	"go/types"
	"path/filepath"
	"sort"
	"strings"

	"golang.org/x/tools/go/ast/astutil"
	"golang.org/x/tools/go/packages"
)

type sroaCtx struct {
	info    *types.Info
	pk      *packages.Package
	newType func(*types.Named) bool
	cand    map[types.Object]*types.Struct
	typeAST map[*types.Named]*ast.StructType
}

// flatStruct: a named struct type declared in this package, new relative to the baseline, whose fields are all
// named (no embedding) and at most 8.
func (c *sroaCtx) flatStruct(t types.Type) (*types.Named, *types.Struct) {
	n, ok := t.(*types.Named)
	if !ok || n.Obj().Pkg() != c.pk.Types || !c.newType(n) {
		return nil, nil
	}
	st, ok := n.Underlying().(*types.Struct)
	if !ok || st.NumFields() == 0 || st.NumFields() > 8 || c.typeAST[n] == nil {
		return nil, nil
	}
	for i := 0; i < st.NumFields(); i++ {
		if st.Field(i).Embedded() {
			return nil, nil
		}
	}
	if n.NumMethods() > 0 {
		// methods would have to be inlined first; once they are (and removed) the type has none left
		return nil, nil
	}
	return n, st
}

func fieldVar(v, f string) string { return "vtS_" + v + "_" + f }

// structExpr: e denotes a whole value of a candidate's struct type in a form that can be split:
// a candidate variable, a composite literal, or a conversion of one of those.
func (c *sroaCtx) structExpr(e ast.Expr) bool {
	switch t := ast.Unparen(e).(type) {
	case *ast.Ident:
		_, ok := c.cand[c.info.Uses[t]]
		return ok
	case *ast.CompositeLit:
		n, _ := c.flatStruct(c.info.TypeOf(t))
		return n != nil
	case *ast.CallExpr:
		if tv, ok := c.info.Types[t.Fun]; ok && tv.IsType() && len(t.Args) == 1 {
			if n, _ := c.flatStruct(tv.Type); n != nil {
				return c.structExpr(t.Args[0])
			}
		}
	}
	return false
}

// fieldsOf returns one expression per field of the struct value e.
func (c *sroaCtx) fieldsOf(e ast.Expr, named *types.Named, st *types.Struct) []ast.Expr {
	zero := func(i int) ast.Expr {
		ft := c.typeAST[named].Fields
		k := 0
		for _, fl := range ft.List {
			for range fl.Names {
				if k == i {
					return &ast.StarExpr{X: &ast.CallExpr{Fun: ast.NewIdent("new"), Args: []ast.Expr{fl.Type}}}
				}
				k++
			}
		}
		return ast.NewIdent("nil")
	}
	switch t := ast.Unparen(e).(type) {
	case *ast.Ident:
		var out []ast.Expr
		for i := 0; i < st.NumFields(); i++ {
			out = append(out, ast.NewIdent(fieldVar(t.Name, st.Field(i).Name())))
		}
		return out
	case *ast.CompositeLit:
		out := make([]ast.Expr, st.NumFields())
		keyed := false
		for _, el := range t.Elts {
			if kv, ok := el.(*ast.KeyValueExpr); ok {
				keyed = true
				if id, ok := kv.Key.(*ast.Ident); ok {
					for i := 0; i < st.NumFields(); i++ {
						if st.Field(i).Name() == id.Name {
							out[i] = kv.Value
						}
					}
				}
			}
		}
		if !keyed {
			for i, el := range t.Elts {
				if i < len(out) {
					out[i] = el
				}
			}
		}
		for i := range out {
			if out[i] == nil {
				out[i] = zero(i)
			}
		}
		return out
	case *ast.CallExpr:
		return c.fieldsOf(t.Args[0], named, st)
	}
	return nil
}

// sroaPackage splits the qualifying struct locals of every function of the package; returns whether anything changed.
func sroaPackage(pk *packages.Package, relDir string, knownTypes map[string]bool, res *normResult, touched map[*ast.File]bool) bool {
	c := &sroaCtx{info: pk.TypesInfo, pk: pk, typeAST: map[*types.Named]*ast.StructType{}}
	c.newType = func(n *types.Named) bool { return !knownTypes[relDir+":type "+n.Obj().Name()] }
	anyNew := false
	for _, f := range pk.Syntax {
		for _, d := range f.Decls {
			gd, ok := d.(*ast.GenDecl)
			if !ok || gd.Tok != token.TYPE {
				continue
			}
			for _, sp := range gd.Specs {
				ts := sp.(*ast.TypeSpec)
				stAST, ok := ts.Type.(*ast.StructType)
				if !ok || ts.TypeParams != nil {
					continue
				}
				if obj, ok := pk.TypesInfo.Defs[ts.Name].(*types.TypeName); ok {
					if n, ok := obj.Type().(*types.Named); ok && c.newType(n) {
						c.typeAST[n] = stAST
						anyNew = true
					}
				}
			}
		}
	}
	if !anyNew {
		return false
	}
	changed := false
	for _, f := range pk.Syntax {
		if touched[f] {
			continue
		}
		name := pk.Fset.File(f.Pos()).Name()
		content := fileContent(name, res)
		tf := pk.Fset.File(f.Pos())
		type edit struct {
			from, to int
			text     []byte
		}
		var edits []edit
		nsplit := 0
		for _, d := range f.Decls {
			fd, ok := d.(*ast.FuncDecl)
			if !ok || fd.Body == nil {
				continue
			}
			n := c.sroaFunc(fd)
			if n == 0 {
				continue
			}
			nsplit += n
			doc := fd.Doc
			fd.Doc = nil
			var b bytes.Buffer
			err := printer.Fprint(&b, pk.Fset, fd)
			fd.Doc = doc
			if err != nil {
				return changed
			}
			edits = append(edits, edit{tf.Offset(fd.Pos()), tf.Offset(fd.End()), b.Bytes()})
		}
		if nsplit == 0 {
			continue
		}
		sort.Slice(edits, func(i, j int) bool { return edits[i].from > edits[j].from })
		out := append([]byte{}, content...)
		for _, e := range edits {
			out = append(append(append([]byte{}, out[:e.from]...), e.text...), out[e.to:]...)
		}
		fm, err := format.Source(out)
		if err != nil {
			res.Kept = appendUniq(res.Kept, name+": struct splitting produced unparsable source")
			continue
		}
		res.Overlay[name] = fm
		touched[f] = true
		changed = true
		rel, _ := filepath.Rel(repoDir, name)
		res.Inlined = append(res.Inlined, fmt.Sprintf("%s: %d local(s) of a new struct type split into per-field locals", rel, nsplit))
	}
	return changed
}

// sroaFunc rewrites fd in place; returns the number of variables split.
func (c *sroaCtx) sroaFunc(fd *ast.FuncDecl) int {
	c.cand = map[types.Object]*types.Struct{}
	named := map[types.Object]*types.Named{}
	// candidates: locals (not parameters/results of fd itself) of a new flat struct type
	sigVars := map[types.Object]bool{}
	for _, fl := range []*ast.FieldList{fd.Recv, fd.Type.Params, fd.Type.Results} {
		if fl == nil {
			continue
		}
		for _, f := range fl.List {
			for _, n := range f.Names {
				sigVars[c.info.Defs[n]] = true
			}
		}
	}
	ast.Inspect(fd.Body, func(n ast.Node) bool {
		id, ok := n.(*ast.Ident)
		if !ok {
			return true
		}
		v, ok := c.info.Defs[id].(*types.Var)
		if !ok || v.IsField() || sigVars[v] || id.Name == "_" {
			return true
		}
		if nt, st := c.flatStruct(v.Type()); nt != nil {
			c.cand[v] = st
			named[v] = nt
		}
		return true
	})
	if len(c.cand) == 0 {
		return 0
	}
	// parameters of nested function literals cannot be split
	ast.Inspect(fd.Body, func(n ast.Node) bool {
		if fl, ok := n.(*ast.FuncLit); ok {
			for _, l := range []*ast.FieldList{fl.Type.Params, fl.Type.Results} {
				if l == nil {
					continue
				}
				for _, f := range l.List {
					for _, nm := range f.Names {
						delete(c.cand, c.info.Defs[nm])
					}
				}
			}
		}
		return true
	})
	// validation to a fixpoint: every use must be field-wise or a whole copy among candidates/literals
	for again := true; again; {
		again = false
		ok := map[*ast.Ident]bool{}
		mark := func(e ast.Expr) {
			if id, isID := ast.Unparen(e).(*ast.Ident); isID {
				ok[id] = true
			}
		}
		ast.Inspect(fd.Body, func(n ast.Node) bool {
			switch t := n.(type) {
			case *ast.SelectorExpr:
				if id, isID := t.X.(*ast.Ident); isID {
					if st, isC := c.cand[c.info.Uses[id]]; isC {
						for i := 0; i < st.NumFields(); i++ {
							if st.Field(i).Name() == t.Sel.Name {
								ok[id] = true
							}
						}
					}
				}
			case *ast.AssignStmt:
				if len(t.Lhs) == len(t.Rhs) && (t.Tok == token.ASSIGN || t.Tok == token.DEFINE) {
					for i := range t.Lhs {
						l, r := t.Lhs[i], t.Rhs[i]
						lid, lIsID := l.(*ast.Ident)
						lCand := false
						if lIsID {
							o := c.info.Uses[lid]
							if o == nil {
								o = c.info.Defs[lid]
							}
							_, lCand = c.cand[o]
						}
						if (lCand || (lIsID && lid.Name == "_")) && c.structExpr(r) {
							mark(l)
							markAll(c, r, ok)
						}
					}
				}
			case *ast.ValueSpec:
				for i, nm := range t.Names {
					if _, isC := c.cand[c.info.Defs[nm]]; !isC {
						continue
					}
					if len(t.Values) == 0 {
						ok[nm] = true
					} else if len(t.Values) == len(t.Names) && c.structExpr(t.Values[i]) {
						ok[nm] = true
						markAll(c, t.Values[i], ok)
					}
				}
			}
			return true
		})
		ast.Inspect(fd.Body, func(n ast.Node) bool {
			id, isID := n.(*ast.Ident)
			if !isID {
				return true
			}
			o := c.info.Uses[id]
			if o == nil {
				o = c.info.Defs[id]
			}
			if _, isC := c.cand[o]; isC && !ok[id] {
				delete(c.cand, o)
				again = true
			}
			return true
		})
	}
	if len(c.cand) == 0 {
		return 0
	}
	// rewrite
	isCandIdent := func(e ast.Expr) (types.Object, bool) {
		id, ok := ast.Unparen(e).(*ast.Ident)
		if !ok {
			return nil, false
		}
		o := c.info.Uses[id]
		if o == nil {
			o = c.info.Defs[id]
		}
		_, isC := c.cand[o]
		return o, isC
	}
	typeOfExpr := func(e ast.Expr) (*types.Named, *types.Struct) {
		if o, ok := isCandIdent(e); ok {
			return named[o], c.cand[o]
		}
		return c.flatStruct(c.info.TypeOf(e))
	}
	fieldTypes := func(nt *types.Named) []ast.Expr {
		var out []ast.Expr
		for _, fl := range c.typeAST[nt].Fields.List {
			for range fl.Names {
				out = append(out, fl.Type)
			}
		}
		return out
	}
	astutil.Apply(fd.Body, func(cur *astutil.Cursor) bool {
		switch t := cur.Node().(type) {
		case *ast.AssignStmt:
			if len(t.Lhs) != len(t.Rhs) {
				return true
			}
			var nl, nr []ast.Expr
			hit := false
			for i := range t.Lhs {
				l, r := t.Lhs[i], t.Rhs[i]
				lo, lCand := isCandIdent(l)
				lid, _ := l.(*ast.Ident)
				if lCand && c.structExpr(r) {
					nt, st := named[lo], c.cand[lo]
					nl = append(nl, c.fieldsOf(l, nt, st)...)
					nr = append(nr, c.fieldsOf(r, nt, st)...)
					hit = true
				} else if lid != nil && lid.Name == "_" && c.structExpr(r) {
					nt, st := typeOfExpr(r)
					if nt == nil {
						nl, nr = append(nl, l), append(nr, r)
						continue
					}
					fs := c.fieldsOf(r, nt, st)
					for range fs {
						nl = append(nl, ast.NewIdent("_"))
					}
					nr = append(nr, fs...)
					hit = true
				} else {
					nl, nr = append(nl, l), append(nr, r)
				}
			}
			if hit {
				t.Lhs, t.Rhs = nl, nr
			}
		case *ast.DeclStmt:
			gd, ok := t.Decl.(*ast.GenDecl)
			if !ok || gd.Tok != token.VAR {
				return true
			}
			var specs []ast.Spec
			hit := false
			for _, sp := range gd.Specs {
				vs := sp.(*ast.ValueSpec)
				anyCand := false
				for _, nm := range vs.Names {
					if _, isC := c.cand[c.info.Defs[nm]]; isC {
						anyCand = true
					}
				}
				if !anyCand {
					specs = append(specs, vs)
					continue
				}
				hit = true
				if len(vs.Values) == 0 {
					// var a, b S  →  one spec per field per variable
					for _, nm := range vs.Names {
						o := c.info.Defs[nm]
						st, isC := c.cand[o]
						if !isC {
							specs = append(specs, &ast.ValueSpec{Names: []*ast.Ident{nm}, Type: vs.Type})
							continue
						}
						fts := fieldTypes(named[o])
						for i := 0; i < st.NumFields(); i++ {
							specs = append(specs, &ast.ValueSpec{Names: []*ast.Ident{ast.NewIdent(fieldVar(nm.Name, st.Field(i).Name()))}, Type: fts[i]})
						}
					}
					continue
				}
				// var a, b = e1, e2 (parallel)  →  all fields in one parallel spec
				ns := &ast.ValueSpec{}
				if vs.Type != nil && len(vs.Names) == 1 {
					// var v S = e
					o := c.info.Defs[vs.Names[0]]
					st := c.cand[o]
					fts := fieldTypes(named[o])
					fs := c.fieldsOf(vs.Values[0], named[o], st)
					for i := 0; i < st.NumFields(); i++ {
						specs = append(specs, &ast.ValueSpec{Names: []*ast.Ident{ast.NewIdent(fieldVar(vs.Names[0].Name, st.Field(i).Name()))}, Type: fts[i], Values: []ast.Expr{fs[i]}})
					}
					continue
				}
				for i, nm := range vs.Names {
					o := c.info.Defs[nm]
					st, isC := c.cand[o]
					if !isC {
						ns.Names = append(ns.Names, nm)
						ns.Values = append(ns.Values, vs.Values[i])
						continue
					}
					fts := fieldTypes(named[o])
					fs := c.fieldsOf(vs.Values[i], named[o], st)
					for k := 0; k < st.NumFields(); k++ {
						ns.Names = append(ns.Names, ast.NewIdent(fieldVar(nm.Name, st.Field(k).Name())))
						// keep each field's declared type (an untyped constant in a literal must not change it)
						ns.Values = append(ns.Values, &ast.CallExpr{Fun: &ast.ParenExpr{X: fts[k]}, Args: []ast.Expr{fs[k]}})
					}
				}
				specs = append(specs, ns)
			}
			if hit {
				// split into one DeclStmt per spec, each followed by a blank use
				var stmts []ast.Stmt
				for _, sp := range specs {
					vs := sp.(*ast.ValueSpec)
					stmts = append(stmts, &ast.DeclStmt{Decl: &ast.GenDecl{Tok: token.VAR, Specs: []ast.Spec{vs}}})
					var l, r []ast.Expr
					for _, nm := range vs.Names {
						if strings.HasPrefix(nm.Name, "vtS_") {
							l = append(l, ast.NewIdent("_"))
							r = append(r, ast.NewIdent(nm.Name))
						}
					}
					if len(l) > 0 {
						stmts = append(stmts, &ast.AssignStmt{Lhs: l, Tok: token.ASSIGN, Rhs: r})
					}
				}
				if _, inList := cur.Parent().(*ast.BlockStmt); inList || isClause(cur.Parent()) {
					// InsertAfter places each node directly after the current one: insert in reverse
					for i := len(stmts) - 1; i >= 1; i-- {
						cur.InsertAfter(stmts[i])
					}
					cur.Replace(stmts[0])
				} else {
					cur.Replace(&ast.BlockStmt{List: stmts})
				}
			}
		}
		return true
	}, nil)
	// second pass (replacement nodes of the first are not walked by Apply): v.f → vtS_v_f
	astutil.Apply(fd.Body, nil, func(cur *astutil.Cursor) bool {
		if se, ok := cur.Node().(*ast.SelectorExpr); ok {
			if id, isID := se.X.(*ast.Ident); isID {
				if _, isC := c.cand[c.info.Uses[id]]; isC {
					cur.Replace(ast.NewIdent(fieldVar(id.Name, se.Sel.Name)))
				}
			}
		}
		return true
	})
	// third pass: a field local that is defined by `:=` (also in an if/for/switch init, where no blank use can be
	// inserted) and never read would not compile ("declared and not used"): define `_` instead
	occ := map[string]int{}
	ast.Inspect(fd.Body, func(n ast.Node) bool {
		if id, ok := n.(*ast.Ident); ok && strings.HasPrefix(id.Name, "vtS_") {
			occ[id.Name]++
		}
		return true
	})
	ast.Inspect(fd.Body, func(n ast.Node) bool {
		as, ok := n.(*ast.AssignStmt)
		if !ok || as.Tok != token.DEFINE {
			return true
		}
		newVars := 0
		for i, l := range as.Lhs {
			id, isID := l.(*ast.Ident)
			if !isID {
				continue
			}
			if strings.HasPrefix(id.Name, "vtS_") && occ[id.Name] == 1 {
				as.Lhs[i] = ast.NewIdent("_")
				continue
			}
			if id.Name != "_" {
				newVars++
			}
		}
		if newVars == 0 {
			as.Tok = token.ASSIGN
		}
		return true
	})
	return len(c.cand)
}

func markAll(c *sroaCtx, e ast.Expr, ok map[*ast.Ident]bool) {
	switch t := ast.Unparen(e).(type) {
	case *ast.Ident:
		ok[t] = true
	case *ast.CallExpr:
		if len(t.Args) == 1 {
			markAll(c, t.Args[0], ok)
		}
	}
}

func isClause(n ast.Node) bool {
	switch n.(type) {
	case *ast.CaseClause, *ast.CommClause:
		return true
	}
	return false
}

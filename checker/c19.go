package main

import (
	"go/token"
	"strings"

	"golang.org/x/tools/go/ssa"
)

func init() {
	register("C19", &propSpec{
		technique: "static analysis: panic-freedom obligations (index, slice, division, unchecked assertion, explicit panic) over the peer-facing parsers, discharged by the compiler's prove pass, a linear guard prover and premise-checked exceptions; buffer typestate of the ClientHello reader",
		run:       runC19,
		decided: "R1 every index, slice, integer division, unchecked type assertion and explicit panic in the functions that parse peer-supplied bytes (ClientHello inspection, User-Agent version parsing, Link header parsing, FastCGI records and responses, placeholder expansion, htpasswd parsing) is shown in range by the compiler, by the guard prover, or by a listed manual argument whose premises (named dominating guards) are re-checked; " +
			"R2 the ClientHello reader consumes bytes from its accumulation buffer only on paths where the complete record is known to be buffered (so what is recorded cannot depend on read segmentation). Since round 4: The scope includes the request matchers (Path.Matches, PathMatcher, IfMatcher). Since round 5: R2 as a table of clientHelloConn.Read over eight segmentations of one record (the parser is handed exactly the record body once), and tlsHelloListener.Accept gives every connection an empty (pooled-then-reset or fresh) buffer. Since round 6: the fastcgi handler (ServeHTTP, buildEnv, splitPos, parseAddress) is in the R1 scope; R3 a responder's Status outside 100..999 is refused; R4 a failed exchange (error, time-out, io.EOF with a half-filled response) is never answered from. Since round 7: the rewrite rules are in the R1 scope; R5 a proxy backend's status is bounded to 100..999 before WriteHeader. R6 no panic statement in the proxy's relay (one known finding: panic(NonHijackerError), pinned by an existing test).",
		notDecided: "semantic accuracy of the browser heuristics; panics inside library callees on bad arguments; nil dereferences; integer overflow.",
	})
}

func funcsByName(h H, rule string, specs [][2]string) []*ssa.Function {
	var out []*ssa.Function
	for _, s := range specs {
		if f := h.fn(rule, s[0], s[1]); f != nil {
			out = append(out, withClosures(f)...)
		}
	}
	return out
}

// withModuleCallees adds module functions statically called from the given ones (same package only).
func withModuleCallees(p *Program, fns []*ssa.Function) []*ssa.Function {
	seen := map[*ssa.Function]bool{}
	var out []*ssa.Function
	var work []*ssa.Function
	work = append(work, fns...)
	for len(work) > 0 {
		f := work[len(work)-1]
		work = work[:len(work)-1]
		if f == nil || seen[f] || len(f.Blocks) == 0 || !isModFunc(f) {
			continue
		}
		seen[f] = true
		out = append(out, f)
		allInstrs(f, func(in ssa.Instruction) {
			if c := callOf(in); c != nil && !c.IsInvoke() {
				if g := calleeFunc(c); g != nil && fnPkg(g) == fnPkg(f) {
					work = append(work, g)
				}
			}
		})
	}
	return out
}

var keyShape = []string{"only-caller:(*httpserver.replacer).Replace", "caller-arg:httpserver.unescapeBraces("}

// Proof-carrying exceptions for C19 (and C13 R3): each names the manual argument and the premises re-checked on every run.
var c19Exceptions = map[string]e5Exception{
	"(*httpserver.replacer).getSubstitution|index:key[1]":                                         {"the key is always unescapeBraces(s[idxStart:idxEnd+1]) with s[idxStart]=='{' and s[idxEnd]=='}' both unescaped: unescaping keeps the first and last byte, so len(key) >= 2", keyShape},
	"(*httpserver.replacer).getSubstitution|slice:key[2:len(key)-1]":                              {"len(key) >= 2 and key ends in '}' while key[1] is '>' here, hence len(key) >= 3", append([]string{"guard:key[1]"}, keyShape...)},
	"(*httpserver.replacer).getSubstitution|slice:key[2:len(key)-1]#2":                            {"as above with key[1] == '<'", append([]string{"guard:key[1]"}, keyShape...)},
	"(*httpserver.replacer).getSubstitution|slice:key[2:len(key)-1]#3":                            {"as above with key[1] == '~'", append([]string{"guard:key[1]"}, keyShape...)},
	"(*httpserver.replacer).getSubstitution|slice:key[2:len(key)-1]#4":                            {"as above with key[1] == '?'", append([]string{"guard:key[1]"}, keyShape...)},
	"(*httpserver.replacer).getSubstitution|slice:key[2:len(key)-1]#5":                            {"as above with key[1] == '$'", append([]string{"guard:key[1]"}, keyShape...)},
	"(*httpserver.replacer).getSubstitution|slice:key[6:len(key)-1]":                              {"key has the prefix \"{label\" (6 bytes) and ends in '}', which is not part of the prefix, hence len(key) >= 7", append([]string{"guard:strings.HasPrefix(key, \"{label\")=true"}, keyShape...)},
	"(*fastcgi.record).read|slice:rec.rbuf[:(int(rec.h.ContentLength)+int(rec.h.PaddingLength))]": {"n = int(ContentLength)+int(PaddingLength) computed in int; rec.rbuf was just replaced by make([]byte, n) unless len(rec.rbuf) >= n already (conditional-update idiom: no single dominating guard)", []string{"ssa:(int(rec.h.ContentLength)+int(rec.h.PaddingLength))"}},
	"(*fastcgi.record).read|slice:rec.rbuf[:int(rec.h.ContentLength)]":                            {"int(ContentLength) <= n <= len(rec.rbuf) by the line above (both summands are non-negative and added in int)", []string{"ssa:int(rec.h.ContentLength)"}},
	"push.parseLinkHeader|slice:link[strings.Index(link,\"<\")+1:strings.Index(link,\">\")]":      {"li and ri are positions of different bytes ('<' and '>'), so ri >= li implies ri >= li+1", []string{"guard:\">\") < strings.Index(", "guard:\"<\") == -1)=false", "guard:\">\") == -1)=false"}},
}

func runC19(r *Report, p *Program) {
	h := H{r, p}
	r.Rule("R1", "panic-freedom of peer-facing parsers: obligations = every IndexAddr/Index/Slice, integer QUO/REM by a non-constant, single-value TypeAssert and Panic in the scope functions; discharged by (1) cmd/compile's prove pass (absent from the -d=ssa/check_bce residue), (2) the linear guard prover, (3) a premise-checked exception; anything else is a violation", 30)
	scope := funcsByName(h, "R1", [][2]string{
		{hs, "parseRawClientHello"}, {hs, "(*clientHelloConn).Read"}, {hs, "(*tlsHandler).ServeHTTP"}, {hs, "getVersion"},
		{hs, "rawHelloInfo.looksLikeFirefox"}, {hs, "rawHelloInfo.looksLikeChrome"}, {hs, "rawHelloInfo.looksLikeEdge"}, {hs, "rawHelloInfo.looksLikeSafari"}, {hs, "rawHelloInfo.looksLikeTor"},
		{hs, "rawHelloInfo.advertisesHeartbeatSupport"}, {hs, "assertPresenceAndOrdering"}, {hs, "hasGreaseCiphers"},
		{"caskethttp/push", "parseLinkHeader"}, {"caskethttp/push", "Middleware.servePreloadLinks"},
		{fcPkg, "Handler.ServeHTTP"}, {fcPkg, "(*record).read"}, {fcPkg, "(*streamReader).Read"}, {fcPkg, "(*FCGIClient).Request"}, {fcPkg, "(*FCGIClient).Do"}, {fcPkg, "(*FCGIClient).writePairs"}, {fcPkg, "encodeSize"}, {fcPkg, "(*streamWriter).Write"}, {fcPkg, "(*FCGIClient).writeRecord"},
		{hs, "(*replacer).Replace"}, {hs, "(*replacer).getSubstitution"},
		{baPkg, "parseHtpasswd"},
		{hs, "Path.Matches"}, {hs, "PathMatcher.Match"}, {hs, "IfMatcher.Match"}, {hs, "ifCond.True"},
		// the rewrite rules: they slice the request path by lengths taken from the rule's base
		// (the extension test of ComplexRule indexes configured strings whose shape NewComplexRule validates, and the
		// handler asserts the type its own setup stored: configuration invariants, not peer bytes — left out)
		{"caskethttp/rewrite", "SimpleRule.Match"}, {"caskethttp/rewrite", "SimpleRule.Rewrite"}, {"caskethttp/rewrite", "regexpMatches"}, {"caskethttp/rewrite", "To"},
	})
	scope = withModuleCallees(p, scope)
	st := e5Check(h, "R1", scope, c19Exceptions)
	r.Extra["c19_e5"] = st
	c19R2(h)
	c19R3(h)
	c19R4(h)
	c19R5(h)
	c19R6(h)
}

// c19R2: decided as a table over read segmentations (E10, c19R2Table); the control-flow formulation (c19R2Patterns)
// is kept for reference and no longer registered.
func c19R2(h H) {
	r := h.r
	r.Rule("R2", "what is recorded does not depend on read segmentation, as a table (E10): clientHelloConn.Read evaluated on a connection delivering one record (5 header bytes, 6 body bytes) followed by 3 bytes of the next one, cut into reads in eight ways (all at once, inside the header, at the header boundary, inside the body, byte by byte): in every segmentation the parser is handed exactly the 6 body bytes exactly once and the connection is marked done; and tlsHelloListener.Accept gives every new connection an empty accumulation buffer (a pooled one is emptied first)", 2)
	bad, n := c19R2Table(h)
	var pos token.Pos
	if fn := h.p.Func(hs, "(*clientHelloConn).Read"); fn != nil {
		pos = fn.Pos()
	}
	if ab := c19AcceptTable(h); true {
		r.Check(ab == "", "R2", "httpserver.(*tlsHelloListener).Accept/buffer-starts-empty", pos, "every new connection accumulates its ClientHello in an empty buffer", ab)
	}
	r.Check(bad == "", "R2", "httpserver.(*clientHelloConn).Read/segmentation-table", pos, "the ClientHello handed to the parser is the same however the peer's bytes were split across reads", sprintf("%d segmentations evaluated", n), bad)
}

func c19R2Patterns(h H) {
	r := h.r
	r.Rule("R2", "the hello buffer is only consumed when complete: in clientHelloConn.Read, after any call that consumes bytes from the accumulation buffer (bytes.Buffer Next/Read*/Truncate/Reset, io.ReadFull/ReadAtLeast on it) every path to a return either stores readHello = true or lies behind the non-nil edge of an error — never a plain 'need more bytes' return", 1)
	fn := h.fn("R2", hs, "(*clientHelloConn).Read")
	if fn == nil {
		return
	}
	isBuf := func(v ssa.Value) bool {
		return derives(v, func(x ssa.Value) bool { return readsField(x, "buf") }, flowOpts{})
	}
	var consumers []ssa.Instruction
	allInstrs(fn, func(in ssa.Instruction) {
		c := callOf(in)
		if c == nil {
			return
		}
		n := calleeName(c)
		switch n {
		case "(*bytes.Buffer).Next", "(*bytes.Buffer).Read", "(*bytes.Buffer).ReadByte", "(*bytes.Buffer).ReadBytes", "(*bytes.Buffer).ReadString", "(*bytes.Buffer).Truncate", "(*bytes.Buffer).Reset", "(*bytes.Buffer).WriteTo", "(*bytes.Buffer).ReadRune":
			if isBuf(c.Args[0]) {
				consumers = append(consumers, in)
			}
		case "io.ReadFull", "io.ReadAtLeast", "io.Copy", "io.CopyN", "io/ioutil.ReadAll", "io.ReadAll":
			for _, a := range c.Args {
				if isBuf(a) {
					consumers = append(consumers, in)
					break
				}
			}
		}
	})
	if len(consumers) == 0 {
		r.Unresolve("R2", "clientHelloConn.Read: no consuming call on the hello buffer found")
		return
	}
	setsDone := func(in ssa.Instruction) bool {
		st, ok := in.(*ssa.Store)
		if !ok {
			return false
		}
		fa, ok := st.Addr.(*ssa.FieldAddr)
		if !ok || fieldName(fa.X.Type(), fa.Field) != "readHello" {
			return false
		}
		c, isC := st.Val.(*ssa.Const)
		return isC && c.Value != nil && c.Value.String() == "true"
	}
	errEdges := nilEdges(fn, false, func(v ssa.Value) bool { return strings.HasSuffix(v.Type().String(), "error") })
	for k, c := range consumers {
		bad := ""
		reach(fn, c, cut{instr: setsDone, edges: errEdges}, func(in ssa.Instruction) bool {
			if rt, ok := in.(*ssa.Return); ok && rt.Block() != fn.Recover {
				bad = h.p.Pos(rt.Pos())
				return false
			}
			return true
		})
		r.Check(bad == "", "R2", sprintf("httpserver.(*clientHelloConn).Read/consume#%d:%s", k+1, shortCallee(c)), c.Pos(),
			"bytes are taken out of the accumulation buffer only once the whole ClientHello is known to be there; otherwise the next Read would parse from the middle of the hello", "returns with the hello unread at "+bad)
	}
}

package main

import (
	"fmt"
	"go/types"
	"strings"
)

// c11R7: "validating or loading ends in bounded time" for the one directive argument that is expanded into a list:
// the port range of a proxy upstream.  parseUpstream is evaluated (E10, with a step budget) on single ports, small
// ranges, empty and reversed ranges and ranges beyond the port space: a range inside 0..65535 yields exactly one
// upstream per port, in order; anything else is refused — in particular not expanded (a range like 1-30000000 would
// allocate a host per number before anything is validated).
func c11R7(h H) {
	r := h.r
	r.Rule("R7", "upstream port ranges, as a table (E10, step budget 200000) of proxy.parseUpstream: `h:8080` and `http://h:8080/x` are themselves; `h:1-3` is h:1 h:2 h:3 and `h:65533-65535/x` three hosts with the path kept; `h:5-5`, `h:6-5`, `h:1-2-3`, `h:1-70000`, `h:1-30000000`, `h:-1-5` and `h:a-b` are refused without being expanded", 1)
	fn := h.fn("R7", pxPkg, "parseUpstream")
	if fn == nil {
		return
	}
	type cs struct {
		in   string
		want string // "" = must be refused
	}
	cases := []cs{
		{"h:8080", "h:8080"}, {"http://h:8080/x", "http://h:8080/x"}, {"h:1-3", "h:1 h:2 h:3"}, {"h:65533-65535/x", "h:65533/x h:65534/x h:65535/x"},
		{"h:5-5", ""}, {"h:6-5", ""}, {"h:1-2-3", ""}, {"h:1-70000", ""}, {"h:1-30000000", ""}, {"h:a-b", ""}, {"h:65530-65536", ""},
	}
	bad, n := "", 0
	for _, c := range cases {
		n++
		env := &absEnv{globals: map[string]*aobj{}, noFork: true, maxSteps: 200000}
		res, und := env.run(fn, []aval{astr(c.in)})
		desc := "upstream `" + c.in + "`"
		if und != "" {
			bad = desc + ": undecided — " + und + " (a range is expanded before it is bounded?)"
			break
		}
		tp, ok := res.(atuple)
		if !ok || len(tp) != 2 {
			bad = desc + ": returns " + describeAval(res)
			break
		}
		_, accepted := tp[1].(anil)
		var hosts []string
		if sl, ok := tp[0].(avals); ok {
			for _, cl := range sl.cells {
				hosts = append(hosts, strings.Trim(describeAval(env.cellVal(cl)), "\""))
			}
		}
		got := strings.Join(hosts, " ")
		switch {
		case c.want == "" && accepted:
			bad = fmt.Sprintf("%s is accepted (%d upstreams); specification: refused", desc, len(hosts))
		case c.want != "" && !accepted:
			bad = desc + " is refused: " + describeAval(tp[1])
		case c.want != "" && got != c.want:
			bad = fmt.Sprintf("%s becomes [%s], specification says [%s]", desc, got, c.want)
		}
		if bad != "" {
			break
		}
	}
	_ = types.Typ
	r.Check(bad == "" && n == len(cases), "R7", "proxy.parseUpstream/port-range-table", fn.Pos(), "a port range is one upstream per port of the range, or refused when it is not inside the port space", fmt.Sprintf("%d upstream arguments evaluated", n), bad)
}

package main

// Source normalisation before analysis: helper functions that did not exist
// when the rules were confirmed against the code (they are not in the embedded
// baseline list of function names), that are unexported, non-recursive and are
// only ever called statically from their own package, are inlined back into
// their callers with the x/tools inliner (a behaviour-preserving source
// transformation; vendored copy under xt/), and their declarations removed.
// The result is handed to the loader and to `go build` as an overlay; /repo is
// never modified.  This makes the rules insensitive to "extract function"
// refactorings; it never changes the verdict on code without new helpers (the
// pre-scan finds nothing and normalisation is skipped entirely).

import (
	"bytes"
	_ "embed"
	"encoding/json"
	"fmt"
	"go/ast"
	"go/format"
	"go/importer"
	"go/parser"
	"go/token"
	"go/types"
	"hash/fnv"
	"os"
	"path/filepath"
	"regexp"
	"sort"
	"strings"

	"golang.org/x/tools/go/packages"

	"verif/checker/xt/refactor/inline"
)

//go:embed known_funcs.txt
var knownFuncsRaw string

// knownFuncs: declaration key -> shape hash of the baseline body ("" for closure variables).
var knownShape = map[string]string{}

var knownFuncs = func() map[string]bool {
	m := map[string]bool{}
	for _, l := range strings.Split(knownFuncsRaw, "\n") {
		if l = strings.TrimSpace(l); l != "" {
			parts := strings.SplitN(l, "\t", 2)
			m[parts[0]] = true
			if len(parts) == 2 {
				knownShape[parts[0]] = parts[1]
			}
		}
	}
	return m
}()

// funcShape is a digest of a function's structure that ignores the names of identifiers it declares or uses
// unqualified (locals, parameters, package-level functions) but keeps operators, literals, selected names and the
// statement structure.  A function that was only renamed (or whose locals were renamed) keeps its shape.
func funcShape(d *ast.FuncDecl) string {
	h := fnv.New64a()
	w := func(s string) { h.Write([]byte(s)); h.Write([]byte{0}) }
	ast.Inspect(d.Type, func(n ast.Node) bool {
		if n != nil {
			w(fmt.Sprintf("%T", n))
		}
		return true
	})
	ast.Inspect(d.Body, func(n ast.Node) bool {
		if n == nil {
			return true
		}
		w(fmt.Sprintf("%T", n))
		switch t := n.(type) {
		case *ast.BinaryExpr:
			w(t.Op.String())
		case *ast.UnaryExpr:
			w(t.Op.String())
		case *ast.AssignStmt:
			w(t.Tok.String())
		case *ast.IncDecStmt:
			w(t.Tok.String())
		case *ast.BranchStmt:
			w(t.Tok.String())
		case *ast.BasicLit:
			w(t.Value)
		case *ast.SelectorExpr:
			w(t.Sel.Name)
		}
		return true
	})
	return fmt.Sprintf("%016x", h.Sum64())
}

// declKey names a function declaration: "<module-relative dir>:<Recv>.<Name>" or "<dir>:<Name>".
func declKey(relDir string, d *ast.FuncDecl) string {
	recv := ""
	if d.Recv != nil && len(d.Recv.List) > 0 {
		t := d.Recv.List[0].Type
		for {
			switch x := t.(type) {
			case *ast.StarExpr:
				t = x.X
				continue
			case *ast.IndexExpr:
				t = x.X
				continue
			case *ast.ParenExpr:
				t = x.X
				continue
			}
			break
		}
		if id, ok := t.(*ast.Ident); ok {
			recv = id.Name + "."
		}
	}
	return relDir + ":" + recv + d.Name.Name
}

// scanFuncDecls parses (syntax only) every non-test .go file of the module and returns the declaration keys.
// helperDirs (filled by scanFuncDecls): module-relative directories whose sources mention an expandable helper.
var helperDirs = map[string]bool{}

var helperMention = regexp.MustCompile(`\bfor( \w+ :?=)? range [\w.()]+ \{|\bstrings\.Builder\b|\bslices\.(Contains|Index|ContainsFunc|IndexFunc)\(|\bstrings\.Cut(Prefix|Suffix)?\(|\b(min|max)\(`)

// declShapes (filled by scanFuncDecls): declaration key -> shape of the current body.
var declShapes = map[string]string{}

func scanFuncDecls(root string) (map[string]bool, error) {
	out := map[string]bool{}
	fset := token.NewFileSet()
	err := filepath.Walk(root, func(path string, info os.FileInfo, err error) error {
		if err != nil {
			return err
		}
		if info.IsDir() {
			n := info.Name()
			if path != root && (strings.HasPrefix(n, ".") || n == "testdata" || n == "vendor" || n == "dist") {
				return filepath.SkipDir
			}
			return nil
		}
		if !strings.HasSuffix(path, ".go") || strings.HasSuffix(path, "_test.go") {
			return nil
		}
		f, perr := parser.ParseFile(fset, path, nil, parser.SkipObjectResolution)
		if perr != nil {
			return nil // the typed load reports real errors
		}
		rel, _ := filepath.Rel(root, filepath.Dir(path))
		if b, err := os.ReadFile(path); err == nil && helperMention.Match(b) {
			helperDirs[rel] = true
		}
		for _, d := range f.Decls {
			if gd, ok := d.(*ast.GenDecl); ok && gd.Tok == token.TYPE {
				for _, sp := range gd.Specs {
					out[rel+":type "+sp.(*ast.TypeSpec).Name.Name] = true
				}
			}
			if fd, ok := d.(*ast.FuncDecl); ok && fd.Body != nil {
				out[declKey(rel, fd)] = true
				declShapes[declKey(rel, fd)] = funcShape(fd)
				for _, cv := range closureVars(fd) {
					out[declKey(rel, fd)+"$"+cv.name] = true
				}
			}
		}
		return nil
	})
	return out, err
}

// undoRenames restores the baseline name of renamed functions/methods throughout the package.
func undoRenames(pk *packages.Package, relDir string, res *normResult) bool {
	if len(res.renames) == 0 {
		return false
	}
	objs := map[types.Object]string{}
	for _, f := range pk.Syntax {
		for _, d := range f.Decls {
			fd, ok := d.(*ast.FuncDecl)
			if !ok || fd.Body == nil {
				continue
			}
			key := declKey(relDir, fd)
			if old, ok := res.renames[key]; ok {
				if obj := pk.TypesInfo.Defs[fd.Name]; obj != nil {
					objs[obj] = old
					res.Inlined = appendUniq(res.Inlined, key+" renamed back to "+old)
				}
				delete(res.renames, key)
			}
		}
	}
	if len(objs) == 0 {
		return false
	}
	changed := false
	for _, f := range pk.Syntax {
		name := pk.Fset.File(f.Pos()).Name()
		content := fileContent(name, res)
		tf := pk.Fset.File(f.Pos())
		type ed struct {
			from, to int
			text     string
		}
		var eds []ed
		ast.Inspect(f, func(n ast.Node) bool {
			id, ok := n.(*ast.Ident)
			if !ok {
				return true
			}
			obj := pk.TypesInfo.Uses[id]
			if obj == nil {
				obj = pk.TypesInfo.Defs[id]
			}
			if old, ok := objs[obj]; ok && obj != nil {
				eds = append(eds, ed{tf.Offset(id.Pos()), tf.Offset(id.End()), old})
			}
			return true
		})
		if len(eds) == 0 {
			continue
		}
		sort.Slice(eds, func(i, j int) bool { return eds[i].from > eds[j].from })
		out := append([]byte{}, content...)
		for _, e := range eds {
			out = append(append(append([]byte{}, out[:e.from]...), e.text...), out[e.to:]...)
		}
		res.Overlay[name] = out
		changed = true
	}
	return changed
}

// closureVar is a local variable defined as a function literal (`name := func…` or `var name = func…`).
type closureVar struct {
	name string
	id   *ast.Ident
	lit  *ast.FuncLit
	stmt ast.Stmt
}

func closureVars(fd *ast.FuncDecl) []closureVar {
	var out []closureVar
	ast.Inspect(fd.Body, func(n ast.Node) bool {
		switch t := n.(type) {
		case *ast.AssignStmt:
			if t.Tok == token.DEFINE && len(t.Lhs) == 1 && len(t.Rhs) == 1 {
				if id, ok := t.Lhs[0].(*ast.Ident); ok && id.Name != "_" {
					if fl, ok := t.Rhs[0].(*ast.FuncLit); ok {
						out = append(out, closureVar{id.Name, id, fl, t})
					}
				}
			}
		case *ast.DeclStmt:
			if gd, ok := t.Decl.(*ast.GenDecl); ok && gd.Tok == token.VAR && len(gd.Specs) == 1 {
				if vs, ok := gd.Specs[0].(*ast.ValueSpec); ok && len(vs.Names) == 1 && len(vs.Values) == 1 && vs.Type == nil {
					if fl, ok := vs.Values[0].(*ast.FuncLit); ok {
						out = append(out, closureVar{vs.Names[0].Name, vs.Names[0], fl, t})
					}
				}
			}
		}
		return true
	})
	return out
}

// inlineLocalClosures replaces the direct calls of a NEW local closure variable (one that the baseline code did
// not have) by the literal itself, immediately invoked, and removes the variable; de-literalisation then splices
// the body in.  Conditions: the variable is assigned once, used only as the function of direct calls outside
// its own body, and every free name of the literal denotes the same object at each call site.
func inlineLocalClosures(pk *packages.Package, relDir string, newOnes map[string]bool, res *normResult, touched map[*ast.File]bool) bool {
	changed := false
	for _, f := range pk.Syntax {
		if touched[f] {
			continue
		}
		for _, d := range f.Decls {
			fd, ok := d.(*ast.FuncDecl)
			if !ok || fd.Body == nil || touched[f] {
				continue
			}
			for _, cv := range closureVars(fd) {
				key := declKey(relDir, fd) + "$" + cv.name
				if !newOnes[key] {
					continue
				}
				obj := pk.TypesInfo.Defs[cv.id]
				if obj == nil {
					continue
				}
				// classify the uses
				var calls []*ast.CallExpr
				bad := ""
				callFun := map[*ast.Ident]bool{}
				ast.Inspect(fd.Body, func(n ast.Node) bool {
					if c, ok := n.(*ast.CallExpr); ok {
						if id, ok := c.Fun.(*ast.Ident); ok && pk.TypesInfo.Uses[id] == obj {
							callFun[id] = true
							calls = append(calls, c)
						}
					}
					return true
				})
				ast.Inspect(fd.Body, func(n ast.Node) bool {
					if id, ok := n.(*ast.Ident); ok && pk.TypesInfo.Uses[id] == obj && !callFun[id] {
						bad = "used as a value or reassigned"
					}
					return true
				})
				for _, c := range calls {
					if c.Pos() >= cv.lit.Pos() && c.End() <= cv.lit.End() {
						bad = "recursive"
					}
					if c.Ellipsis.IsValid() {
						bad = "variadic call"
					}
				}
				if bad == "" && len(calls) == 0 {
					bad = "never called"
				}
				if bad == "" && len(calls) > 16 {
					bad = "more than 16 call sites"
				}
				// free names of the literal must mean the same thing at every call site
				if bad == "" {
					sels := map[*ast.Ident]bool{}
					ast.Inspect(cv.lit, func(n ast.Node) bool {
						switch t := n.(type) {
						case *ast.SelectorExpr:
							sels[t.Sel] = true
						case *ast.KeyValueExpr:
							if id, ok := t.Key.(*ast.Ident); ok {
								if v, isVar := pk.TypesInfo.Uses[id].(*types.Var); isVar && v.IsField() {
									sels[id] = true
								}
							}
						}
						return true
					})
					ast.Inspect(cv.lit, func(n ast.Node) bool {
						id, ok := n.(*ast.Ident)
						if !ok || sels[id] {
							return true
						}
						o := pk.TypesInfo.Uses[id]
						if o == nil || o.Pkg() == nil && o.Parent() == types.Universe {
							return true
						}
						if o.Pos() >= cv.lit.Pos() && o.Pos() < cv.lit.End() {
							return true // declared inside the literal
						}
						if _, isField := o.(*types.Var); isField && o.(*types.Var).IsField() {
							return true
						}
						if o.Parent() == nil {
							return true // methods, labels
						}
						for _, c := range calls {
							sc := pk.Types.Scope().Innermost(c.Pos())
							if sc == nil {
								bad = "no scope at a call site"
								return false
							}
							if _, at := sc.LookupParent(id.Name, c.Pos()); at != o {
								bad = "name " + id.Name + " means something else at a call site"
								return false
							}
						}
						return true
					})
				}
				if bad != "" {
					res.Kept = appendUniq(res.Kept, key+": "+bad)
					continue
				}
				name := pk.Fset.File(f.Pos()).Name()
				content := fileContent(name, res)
				tf := pk.Fset.File(f.Pos())
				litSrc := string(content[tf.Offset(cv.lit.Pos()):tf.Offset(cv.lit.End())])
				type ed struct {
					from, to int
					text     string
				}
				eds := []ed{{tf.Offset(cv.stmt.Pos()), tf.Offset(cv.stmt.End()), ""}}
				for _, c := range calls {
					eds = append(eds, ed{tf.Offset(c.Fun.Pos()), tf.Offset(c.Fun.End()), litSrc})
				}
				sort.Slice(eds, func(i, j int) bool { return eds[i].from > eds[j].from })
				out := append([]byte{}, content...)
				for _, e := range eds {
					out = append(append(append([]byte{}, out[:e.from]...), e.text...), out[e.to:]...)
				}
				old := iifeTexts(name, content)
				out2, n := deliteralize(name, out, old)
				if _, err := parser.ParseFile(token.NewFileSet(), name, out2, parser.SkipObjectResolution); err != nil {
					res.Kept = appendUniq(res.Kept, key+": rewrite does not parse")
					continue
				}
				res.Overlay[name] = out2
				touched[f] = true
				changed = true
				res.Inlined = append(res.Inlined, sprintf("%s <- local closure %s (%d call site(s), %d expanded in place)", declKey(relDir, fd), cv.name, len(calls), n))
				break
			}
		}
	}
	return changed
}

// ---------------------------------------------------------------------------
// Standard-library helper expansion.  The baseline code uses none of slices.Contains/Index/ContainsFunc/IndexFunc,
// strings.Cut/CutPrefix/CutSuffix or the min/max builtins; a change that introduces one replaces a hand-written
// loop or Index-and-slice sequence the rules know.  Each such call is rewritten to the equivalent explicit code
// (as an immediately-invoked literal, which de-literalisation then splices in), so the rules see the loop again.

func simpleOperand(e ast.Expr) bool {
	switch t := e.(type) {
	case *ast.Ident, *ast.BasicLit:
		return true
	case *ast.SelectorExpr:
		return simpleOperand(t.X)
	case *ast.ParenExpr:
		return simpleOperand(t.X)
	case *ast.StarExpr:
		return simpleOperand(t.X)
	case *ast.UnaryExpr:
		return t.Op != token.ARROW && t.Op != token.AND && simpleOperand(t.X)
	case *ast.BinaryExpr:
		return simpleOperand(t.X) && simpleOperand(t.Y)
	case *ast.IndexExpr:
		return simpleOperand(t.X) && simpleOperand(t.Index)
	case *ast.CallExpr:
		if id, ok := t.Fun.(*ast.Ident); ok && len(t.Args) == 1 {
			switch id.Name {
			case "len", "cap", "int", "int8", "int16", "int32", "int64", "uint", "uint8", "uint16", "uint32", "uint64", "uintptr", "byte", "rune", "float32", "float64", "string":
				// len/cap and conversions to predeclared types have no side effects
				return simpleOperand(t.Args[0])
			}
		}
	}
	return false
}

func expandStdHelpers(pk *packages.Package, res *normResult, touched map[*ast.File]bool) bool {
	changed := false
	for _, f := range pk.Syntax {
		if touched[f] {
			continue
		}
		name := pk.Fset.File(f.Pos()).Name()
		content := fileContent(name, res)
		tf := pk.Fset.File(f.Pos())
		src := func(e ast.Expr) string { return string(content[tf.Offset(e.Pos()):tf.Offset(e.End())]) }
		type ed struct {
			from, to int
			text     string
		}
		var eds []ed
		n := 0
		var done []string
		ast.Inspect(f, func(nd ast.Node) bool {
			c, ok := nd.(*ast.CallExpr)
			if !ok || c.Ellipsis.IsValid() {
				return true
			}
			full := ""
			switch fun := c.Fun.(type) {
			case *ast.SelectorExpr:
				if fn, ok := pk.TypesInfo.Uses[fun.Sel].(*types.Func); ok && fn.Pkg() != nil {
					full = fn.Pkg().Path() + "." + fn.Name()
				}
			case *ast.Ident:
				if b, ok := pk.TypesInfo.Uses[fun].(*types.Builtin); ok {
					full = "builtin." + b.Name()
				}
			}
			// an expandable call nested in the arguments is handled in a later round
			for _, e := range eds {
				if tf.Offset(c.Pos()) >= e.from && tf.Offset(c.End()) <= e.to {
					return true
				}
			}
			n++
			ev := fmt.Sprintf("vtE%d", len(eds)+1)
			text := ""
			switch full {
			case "slices.Contains":
				if len(c.Args) == 2 && simpleOperand(c.Args[1]) {
					text = fmt.Sprintf("func() bool { for _, %s := range %s { if %s == %s { return true } }; return false }()", ev, src(c.Args[0]), ev, src(c.Args[1]))
				}
			case "slices.Index":
				if len(c.Args) == 2 && simpleOperand(c.Args[1]) {
					text = fmt.Sprintf("func() int { for %sI, %s := range %s { if %s == %s { return %sI } }; return -1 }()", ev, ev, src(c.Args[0]), ev, src(c.Args[1]), ev)
				}
			case "slices.ContainsFunc":
				if len(c.Args) == 2 && funcOperand(c.Args[1]) {
					text = fmt.Sprintf("func() bool { for _, %s := range %s { if %s(%s) { return true } }; return false }()", ev, src(c.Args[0]), parenLit(c.Args[1], src), ev)
				}
			case "slices.IndexFunc":
				if len(c.Args) == 2 && funcOperand(c.Args[1]) {
					text = fmt.Sprintf("func() int { for %sI, %s := range %s { if %s(%s) { return %sI } }; return -1 }()", ev, ev, src(c.Args[0]), parenLit(c.Args[1], src), ev, ev)
				}
			case "strings.Cut":
				if len(c.Args) == 2 && simpleOperand(c.Args[0]) && simpleOperand(c.Args[1]) {
					a, b := src(c.Args[0]), src(c.Args[1])
					text = fmt.Sprintf("func() (string, string, bool) { if %s := strings.Index(%s, %s); %s >= 0 { return %s[:%s], %s[%s+len(%s):], true }; return %s, \"\", false }()", ev, a, b, ev, a, ev, a, ev, b, a)
				}
			case "strings.CutPrefix":
				if len(c.Args) == 2 && simpleOperand(c.Args[0]) && simpleOperand(c.Args[1]) {
					a, b := src(c.Args[0]), src(c.Args[1])
					text = fmt.Sprintf("func() (string, bool) { if strings.HasPrefix(%s, %s) { return %s[len(%s):], true }; return %s, false }()", a, b, a, b, a)
				}
			case "strings.CutSuffix":
				if len(c.Args) == 2 && simpleOperand(c.Args[0]) && simpleOperand(c.Args[1]) {
					a, b := src(c.Args[0]), src(c.Args[1])
					text = fmt.Sprintf("func() (string, bool) { if strings.HasSuffix(%s, %s) { return %s[:len(%s)-len(%s)], true }; return %s, false }()", a, b, a, a, b, a)
				}
			case "builtin.min", "builtin.max":
				if len(c.Args) == 2 && simpleOperand(c.Args[0]) && simpleOperand(c.Args[1]) {
					if bt, ok := pk.TypesInfo.TypeOf(c).(*types.Basic); ok && bt.Info()&types.IsInteger != 0 && bt.Info()&types.IsUntyped == 0 {
						op := "<"
						if full == "builtin.max" {
							op = ">"
						}
						a, b := src(c.Args[0]), src(c.Args[1])
						text = fmt.Sprintf("func() %s { if %s %s %s { return %s }; return %s }()", bt.Name(), b, op, a, b, a)
					}
				}
			}
			if text != "" {
				eds = append(eds, ed{tf.Offset(c.Pos()), tf.Offset(c.End()), text})
				done = append(done, full)
				return false
			}
			return true
		})
		if len(eds) == 0 {
			continue
		}
		sort.Slice(eds, func(i, j int) bool { return eds[i].from > eds[j].from })
		out := append([]byte{}, content...)
		for _, e := range eds {
			out = append(append(append([]byte{}, out[:e.from]...), e.text...), out[e.to:]...)
		}
		old := iifeTexts(name, content)
		out2, nlit := deliteralize(name, out, old)
		out2 = ensureImport(name, out2, "strings")
		out2 = dropUnusedImports(name, out2)
		if _, err := parser.ParseFile(token.NewFileSet(), name, out2, parser.SkipObjectResolution); err != nil {
			res.Kept = appendUniq(res.Kept, name+": helper expansion does not parse")
			continue
		}
		res.Overlay[name] = out2
		touched[f] = true
		changed = true
		sort.Strings(done)
		rel, _ := filepath.Rel(repoDir, name)
		res.Inlined = append(res.Inlined, sprintf("%s: expanded %s (%d spliced in place)", rel, strings.Join(done, ","), nlit))
	}
	return changed
}

// assignsTo: the statement list assigns to (or increments, or takes the address of) the named variable.
func assignsTo(body ast.Node, info *types.Info, obj types.Object) bool {
	found := false
	ast.Inspect(body, func(n ast.Node) bool {
		switch t := n.(type) {
		case *ast.AssignStmt:
			for _, l := range t.Lhs {
				if id, ok := l.(*ast.Ident); ok && info.Uses[id] == obj {
					found = true
				}
			}
		case *ast.IncDecStmt:
			if id, ok := t.X.(*ast.Ident); ok && info.Uses[id] == obj {
				found = true
			}
		case *ast.UnaryExpr:
			if id, ok := t.X.(*ast.Ident); ok && t.Op == token.AND && info.Uses[id] == obj {
				found = true
			}
		}
		return !found
	})
	return found
}

// expandRangeInt rewrites `for i := range n` over an integer (Go 1.22; the baseline has none) into the classic
// three-clause loop the rules' loop recognisers know.  Only when n is a plain operand that the body does not modify
// and the body does not assign the loop variable (then the two forms are the same loop).
func expandRangeInt(pk *packages.Package, res *normResult, touched map[*ast.File]bool) bool {
	changed := false
	for _, f := range pk.Syntax {
		if touched[f] {
			continue
		}
		name := pk.Fset.File(f.Pos()).Name()
		content := fileContent(name, res)
		tf := pk.Fset.File(f.Pos())
		type ed struct {
			from, to int
			text     string
		}
		var eds []ed
		ast.Inspect(f, func(nd ast.Node) bool {
			rs, ok := nd.(*ast.RangeStmt)
			if !ok || rs.Value != nil {
				return true
			}
			bt, ok := pk.TypesInfo.TypeOf(rs.X).Underlying().(*types.Basic)
			if !ok || bt.Info()&types.IsInteger == 0 || !simpleOperand(rs.X) {
				return true
			}
			tname := "int"
			if bt.Info()&types.IsUntyped == 0 {
				if _, isBasic := pk.TypesInfo.TypeOf(rs.X).(*types.Basic); !isBasic {
					return true // named integer type: leave
				}
				tname = bt.Name()
			}
			// n must not change in the body
			bad := false
			ast.Inspect(rs.X, func(m ast.Node) bool {
				if id, ok := m.(*ast.Ident); ok {
					if o := pk.TypesInfo.Uses[id]; o != nil && assignsTo(rs.Body, pk.TypesInfo, o) {
						bad = true
					}
				}
				return true
			})
			if bad {
				return true
			}
			nsrc := string(content[tf.Offset(rs.X.Pos()):tf.Offset(rs.X.End())])
			iv := fmt.Sprintf("vtI%d", len(eds)+1)
			hdr := ""
			if rs.Key != nil {
				id, ok := rs.Key.(*ast.Ident)
				if !ok {
					return true
				}
				var o types.Object
				if rs.Tok == token.DEFINE {
					o = pk.TypesInfo.Defs[id]
				} else {
					o = pk.TypesInfo.Uses[id]
				}
				if id.Name != "_" && o != nil && assignsTo(rs.Body, pk.TypesInfo, o) {
					return true
				}
				if id.Name != "_" {
					iv = id.Name
				}
				if rs.Tok == token.ASSIGN && id.Name != "_" {
					hdr = fmt.Sprintf("for %s = 0; %s < %s; %s++ ", iv, iv, nsrc, iv)
				}
			}
			if hdr == "" {
				hdr = fmt.Sprintf("for %s := %s(0); %s < %s; %s++ ", iv, tname, iv, nsrc, iv)
			}
			eds = append(eds, ed{tf.Offset(rs.For), tf.Offset(rs.Body.Lbrace), hdr})
			return true
		})
		if len(eds) == 0 {
			continue
		}
		sort.Slice(eds, func(i, j int) bool { return eds[i].from > eds[j].from })
		out := append([]byte{}, content...)
		for _, e := range eds {
			out = append(append(append([]byte{}, out[:e.from]...), e.text...), out[e.to:]...)
		}
		if _, err := parser.ParseFile(token.NewFileSet(), name, out, parser.SkipObjectResolution); err != nil {
			continue
		}
		res.Overlay[name] = out
		touched[f] = true
		changed = true
		rel, _ := filepath.Rel(repoDir, name)
		res.Inlined = append(res.Inlined, sprintf("%s: %d range-over-integer loop(s) written as three-clause loops", rel, len(eds)))
	}
	return changed
}

// expandBuilders rewrites a local `var b strings.Builder` (the baseline has none) that is only written with
// WriteString/WriteByte/WriteRune/Write/fmt.Fprintf(&b, …) and read with String()/Len() into a plain string built
// with +=, the form the value-flow rules follow.
func expandBuilders(pk *packages.Package, res *normResult, touched map[*ast.File]bool) bool {
	changed := false
	isBuilder := func(t types.Type) bool {
		n, ok := t.(*types.Named)
		return ok && n.Obj().Pkg() != nil && n.Obj().Pkg().Path() == "strings" && n.Obj().Name() == "Builder"
	}
	for _, f := range pk.Syntax {
		if touched[f] {
			continue
		}
		name := pk.Fset.File(f.Pos()).Name()
		content := fileContent(name, res)
		tf := pk.Fset.File(f.Pos())
		src := func(n ast.Node) string { return string(content[tf.Offset(n.Pos()):tf.Offset(n.End())]) }
		type ed struct {
			from, to int
			text     string
		}
		var all []ed
		nvars := 0
		for _, d := range f.Decls {
			fd, ok := d.(*ast.FuncDecl)
			if !ok || fd.Body == nil {
				continue
			}
			// candidate variables: `var b strings.Builder`
			ast.Inspect(fd.Body, func(nd ast.Node) bool {
				ds, ok := nd.(*ast.DeclStmt)
				if !ok {
					return true
				}
				gd, ok := ds.Decl.(*ast.GenDecl)
				if !ok || gd.Tok != token.VAR || len(gd.Specs) != 1 {
					return true
				}
				vs, ok := gd.Specs[0].(*ast.ValueSpec)
				if !ok || len(vs.Names) != 1 || len(vs.Values) != 0 || vs.Type == nil {
					return true
				}
				obj := pk.TypesInfo.Defs[vs.Names[0]]
				if obj == nil || !isBuilder(obj.Type()) {
					return true
				}
				var eds []ed
				okAll := true
				handled := map[*ast.Ident]bool{}
				eds = append(eds, ed{tf.Offset(vs.Type.Pos()), tf.Offset(vs.Type.End()), "string"})
				// statement-level writes
				ast.Inspect(fd.Body, func(m ast.Node) bool {
					es, ok := m.(*ast.ExprStmt)
					if !ok {
						return true
					}
					c, ok := es.X.(*ast.CallExpr)
					if !ok {
						return true
					}
					if se, ok := c.Fun.(*ast.SelectorExpr); ok {
						if id, ok := se.X.(*ast.Ident); ok && pk.TypesInfo.Uses[id] == obj && len(c.Args) <= 1 {
							v := id.Name
							switch se.Sel.Name {
							case "WriteString":
								eds = append(eds, ed{tf.Offset(es.Pos()), tf.Offset(es.End()), v + " += " + src(c.Args[0])})
							case "WriteByte", "WriteRune", "Write":
								eds = append(eds, ed{tf.Offset(es.Pos()), tf.Offset(es.End()), v + " += string(" + src(c.Args[0]) + ")"})
							case "Reset":
								eds = append(eds, ed{tf.Offset(es.Pos()), tf.Offset(es.End()), v + " = \"\""})
							case "Grow":
								eds = append(eds, ed{tf.Offset(es.Pos()), tf.Offset(es.End()), "_ = " + src(c.Args[0])})
							default:
								return true
							}
							handled[id] = true
							return false
						}
						// fmt.Fprintf(&b, …) / fmt.Fprint(&b, …)
						if pid, ok := se.X.(*ast.Ident); ok && len(c.Args) >= 1 {
							if pn, ok := pk.TypesInfo.Uses[pid].(*types.PkgName); ok && pn.Imported().Path() == "fmt" && strings.HasPrefix(se.Sel.Name, "Fprint") {
								if ue, ok := c.Args[0].(*ast.UnaryExpr); ok && ue.Op == token.AND {
									if id, ok := ue.X.(*ast.Ident); ok && pk.TypesInfo.Uses[id] == obj && len(c.Args) >= 2 {
										rest := string(content[tf.Offset(c.Args[1].Pos()):tf.Offset(c.Rparen)])
										eds = append(eds, ed{tf.Offset(es.Pos()), tf.Offset(es.End()), id.Name + " += fmt.S" + strings.TrimPrefix(se.Sel.Name, "F") + "(" + rest + ")"})
										handled[id] = true
										return false
									}
								}
							}
						}
					}
					return true
				})
				// reads
				ast.Inspect(fd.Body, func(m ast.Node) bool {
					c, ok := m.(*ast.CallExpr)
					if !ok {
						return true
					}
					if se, ok := c.Fun.(*ast.SelectorExpr); ok && len(c.Args) == 0 {
						if id, ok := se.X.(*ast.Ident); ok && pk.TypesInfo.Uses[id] == obj && !handled[id] {
							switch se.Sel.Name {
							case "String":
								eds = append(eds, ed{tf.Offset(c.Pos()), tf.Offset(c.End()), id.Name})
								handled[id] = true
							case "Len":
								eds = append(eds, ed{tf.Offset(c.Pos()), tf.Offset(c.End()), "len(" + id.Name + ")"})
								handled[id] = true
							}
						}
					}
					return true
				})
				// any other use disqualifies the variable
				ast.Inspect(fd.Body, func(m ast.Node) bool {
					if id, ok := m.(*ast.Ident); ok && pk.TypesInfo.Uses[id] == obj && !handled[id] {
						okAll = false
					}
					return true
				})
				if okAll {
					all = append(all, eds...)
					nvars++
				}
				return true
			})
		}
		if nvars == 0 {
			continue
		}
		sort.Slice(all, func(i, j int) bool { return all[i].from > all[j].from })
		// overlapping edits (a String() call inside a rewritten statement): give up on the file
		overlap := false
		for i := 1; i < len(all); i++ {
			if all[i].to > all[i-1].from {
				overlap = true
			}
		}
		if overlap {
			continue
		}
		out := append([]byte{}, content...)
		for _, e := range all {
			out = append(append(append([]byte{}, out[:e.from]...), e.text...), out[e.to:]...)
		}
		out = dropUnusedImports(name, out)
		if _, err := parser.ParseFile(token.NewFileSet(), name, out, parser.SkipObjectResolution); err != nil {
			continue
		}
		res.Overlay[name] = out
		touched[f] = true
		changed = true
		rel, _ := filepath.Rel(repoDir, name)
		res.Inlined = append(res.Inlined, sprintf("%s: %d strings.Builder variable(s) written as string concatenation", rel, nvars))
	}
	return changed
}

func funcOperand(e ast.Expr) bool {
	switch e.(type) {
	case *ast.FuncLit, *ast.Ident:
		return true
	}
	return simpleOperand(e)
}

func parenLit(e ast.Expr, src func(ast.Expr) string) string {
	if _, ok := e.(*ast.FuncLit); ok {
		return src(e) // `func(x T) bool {…}(arg)` is a valid call of a literal
	}
	return src(e)
}

// ensureImport adds an import of a standard package if the file uses it without importing it.
func ensureImport(name string, src []byte, pkg string) []byte {
	fset := token.NewFileSet()
	f, err := parser.ParseFile(fset, name, src, parser.ParseComments)
	if err != nil {
		return src
	}
	uses := false
	ast.Inspect(f, func(n ast.Node) bool {
		if se, ok := n.(*ast.SelectorExpr); ok {
			if id, ok := se.X.(*ast.Ident); ok && id.Name == pkg {
				uses = true
			}
		}
		return true
	})
	if !uses {
		return src
	}
	for _, im := range f.Imports {
		if strings.Trim(im.Path.Value, `"`) == pkg {
			return src
		}
	}
	// insert after the package clause
	off := fset.File(f.Pos()).Offset(f.Name.End())
	out := append([]byte{}, src[:off]...)
	out = append(out, []byte("\n\nimport \""+pkg+"\"\n")...)
	out = append(out, src[off:]...)
	return out
}

type normResult struct {
	renames map[string]string
	Overlay map[string][]byte
	Inlined []string // "caller <- callee"
	Kept    []string // new helpers that could not be inlined (reason)
}

// normalizeRepo returns an overlay in which new single-package helpers are inlined.  nil overlay = nothing to do.
func normalizeRepo(goos, goarch string) (*normResult, error) {
	decls, err := scanFuncDecls(repoDir)
	if err != nil {
		return nil, err
	}
	newOnes := map[string]bool{}
	for k := range decls {
		if !knownFuncs[k] {
			newOnes[k] = true
		}
	}
	res := &normResult{}
	// renamed functions: a baseline function that is gone and a new one of identical shape in the same directory
	// (and with the same receiver) are the same function under a new name; the old name is restored
	renames := map[string]string{} // new key -> old name
	{
		missingByShape := map[string][]string{}
		for k := range knownFuncs {
			if !decls[k] && knownShape[k] != "" {
				missingByShape[knownShape[k]] = append(missingByShape[knownShape[k]], k)
			}
		}
		newByShape := map[string][]string{}
		for k := range newOnes {
			if sh := declShapes[k]; sh != "" {
				newByShape[sh] = append(newByShape[sh], k)
			}
		}
		for sh, olds := range missingByShape {
			news := newByShape[sh]
			if len(olds) != 1 || len(news) != 1 {
				continue
			}
			o, n := olds[0], news[0]
			od, on := o[:strings.Index(o, ":")], o[strings.Index(o, ":")+1:]
			nd, nn := n[:strings.Index(n, ":")], n[strings.Index(n, ":")+1:]
			orecv, nrecv := "", ""
			if i := strings.Index(on, "."); i >= 0 {
				orecv, on = on[:i], on[i+1:]
			}
			if i := strings.Index(nn, "."); i >= 0 {
				nrecv, nn = nn[:i], nn[i+1:]
			}
			if od != nd || orecv != nrecv || ast.IsExported(on) != ast.IsExported(nn) {
				continue
			}
			renames[n] = on
			delete(newOnes, n)
		}
	}
	res.renames = renames
	if len(newOnes) == 0 && len(helperDirs) == 0 && len(renames) == 0 {
		return res, nil
	}
	env := append(os.Environ(), "GOFLAGS=-mod=mod", "GOPROXY=off", "GOSUMDB=off", "GOTOOLCHAIN=local", "GOWORK=off", "CGO_ENABLED=0")
	if goos != "" {
		env = append(env, "GOOS="+goos)
	}
	if goarch != "" {
		env = append(env, "GOARCH="+goarch)
	}
	res.Overlay = map[string][]byte{}
	// only the packages that declare a new function are (re)loaded; inlining is package-local
	dirs := map[string]bool{}
	for k := range newOnes {
		dirs[k[:strings.Index(k, ":")]] = true
	}
	for d := range helperDirs {
		dirs[d] = true
	}
	for k := range renames {
		dirs[k[:strings.Index(k, ":")]] = true
	}
	var patterns []string
	for d := range dirs {
		patterns = append(patterns, "./"+d)
	}
	sort.Strings(patterns)
	var snapshot map[string][]byte
	var snapInlined []string
	for round := 0; round < 40; round++ {
		cfg := &packages.Config{
			Mode:    packages.NeedName | packages.NeedFiles | packages.NeedCompiledGoFiles | packages.NeedImports | packages.NeedTypes | packages.NeedSyntax | packages.NeedTypesInfo | packages.NeedTypesSizes,
			Dir:     repoDir,
			Env:     env,
			Overlay: res.Overlay,
		}
		pkgs, err := packages.Load(cfg, patterns...)
		if err != nil {
			return nil, err
		}
		bad := ""
		for _, pk := range pkgs {
			for _, e := range pk.Errors {
				bad += e.Error() + " | "
			}
		}
		if bad != "" {
			if round == 0 {
				// the tree itself does not type-check: the real load reports it
				res.Overlay = nil
				return res, nil
			}
			// the last round's rewrite is not valid Go: fall back to the state before it
			res.Overlay, res.Inlined = snapshot, snapInlined
			res.Kept = appendUniq(res.Kept, "normalisation stopped: rewritten source did not type-check: "+bad)
			break
		}
		snapshot = map[string][]byte{}
		for k, v := range res.Overlay {
			snapshot[k] = v
		}
		snapInlined = append([]string{}, res.Inlined...)
		if round == 39 {
			break
		}
		progress := false
		for _, pk := range pkgs {
			if !isModPkg(pk.PkgPath) {
				continue
			}
			if normalizePackage(pk, newOnes, res) {
				progress = true
			}
		}
		if !progress {
			break
		}
	}
	if len(res.Overlay) == 0 {
		res.Overlay = nil
	}
	sort.Strings(res.Inlined)
	sort.Strings(res.Kept)
	return res, nil
}

// normalizePackage performs at most one inlining per file of the package (positions go stale after an edit);
// returns whether anything changed.
func normalizePackage(pk *packages.Package, newOnes map[string]bool, res *normResult) bool {
	relDir := strings.TrimPrefix(strings.TrimPrefix(pk.PkgPath, modPath), "/")
	if relDir == "" {
		relDir = "."
	}
	// candidate callees: new, unexported, with body, declared in this package
	type cand struct {
		decl *ast.FuncDecl
		file *ast.File
		obj  *types.Func
	}
	cands := map[*types.Func]*cand{}
	for _, f := range pk.Syntax {
		for _, d := range f.Decls {
			fd, ok := d.(*ast.FuncDecl)
			if !ok || fd.Body == nil || fd.Name.IsExported() {
				continue
			}
			if !newOnes[declKey(relDir, fd)] {
				continue
			}
			if obj, ok := pk.TypesInfo.Defs[fd.Name].(*types.Func); ok {
				cands[obj] = &cand{fd, f, obj}
			}
		}
	}
	touched := map[*ast.File]bool{}
	if undoRenames(pk, relDir, res) {
		// every file of the package may have been edited: nothing else this round
		return true
	}
	changed := expandStdHelpers(pk, res, touched)
	if expandRangeInt(pk, res, touched) {
		changed = true
	}
	if expandBuilders(pk, res, touched) {
		changed = true
	}
	if sroaPackage(pk, relDir, knownFuncs, res, touched) {
		changed = true
	}
	if inlineLocalClosures(pk, relDir, newOnes, res, touched) {
		changed = true
	}
	if len(cands) == 0 {
		return changed
	}
	// uses: static calls vs other uses
	type use struct {
		call *ast.CallExpr
		file *ast.File
		encl *ast.FuncDecl
	}
	calls := map[*types.Func][]use{}
	valueUse := map[*types.Func]bool{}
	for _, f := range pk.Syntax {
		var encl *ast.FuncDecl
		callFuns := map[ast.Expr]bool{}
		ast.Inspect(f, func(n ast.Node) bool {
			switch t := n.(type) {
			case *ast.FuncDecl:
				encl = t
			case *ast.CallExpr:
				var id *ast.Ident
				switch fun := ast.Unparen(t.Fun).(type) {
				case *ast.Ident:
					id = fun
				case *ast.SelectorExpr:
					id = fun.Sel
				}
				if id != nil {
					if obj, ok := pk.TypesInfo.Uses[id].(*types.Func); ok && cands[obj] != nil {
						calls[obj] = append(calls[obj], use{t, f, encl})
						callFuns[t.Fun] = true
						callFuns[id] = true
					}
				}
			}
			return true
		})
		ast.Inspect(f, func(n ast.Node) bool {
			if id, ok := n.(*ast.Ident); ok && !callFuns[id] {
				if obj, ok := pk.TypesInfo.Uses[id].(*types.Func); ok && cands[obj] != nil {
					// is this ident the Sel of a call Fun?
					valueUse[obj] = valueUse[obj] || !isCallSel(f, id)
				}
			}
			return true
		})
	}
	// deterministic order
	var objs []*types.Func
	for o := range cands {
		objs = append(objs, o)
	}
	sort.Slice(objs, func(i, j int) bool { return objs[i].Pos() < objs[j].Pos() })
	for _, obj := range objs {
		c := cands[obj]
		name := declKey(relDir, c.decl)
		if valueUse[obj] {
			res.Kept = appendUniq(res.Kept, name+": used as a value")
			continue
		}
		us := calls[obj]
		if len(us) == 0 {
			// unused (all call sites already inlined): drop the declaration
			if !touched[c.file] {
				if content, ok := removeDecl(pk, c.file, c.decl, res); ok {
					res.Overlay[pk.Fset.File(c.file.Pos()).Name()] = content
					touched[c.file] = true
					changed = true
				}
			}
			continue
		}
		if len(us) > 4 {
			res.Kept = appendUniq(res.Kept, name+": more than 4 call sites")
			continue
		}
		// recursion
		rec := false
		for _, u := range us {
			if u.encl == c.decl {
				rec = true
			}
		}
		if rec {
			res.Kept = appendUniq(res.Kept, name+": recursive")
			continue
		}
		// inline the first call site whose file has not been edited in this pass
		for _, u := range us {
			if touched[u.file] || touched[c.file] {
				continue
			}
			callerName := pk.Fset.File(u.file.Pos()).Name()
			calleeName := pk.Fset.File(c.file.Pos()).Name()
			callerContent := fileContent(callerName, res)
			calleeContent := fileContent(calleeName, res)
			callee, err := inline.AnalyzeCallee(func(string, ...any) {}, pk.Fset, pk.Types, pk.TypesInfo, c.decl, calleeContent)
			if err != nil {
				res.Kept = appendUniq(res.Kept, name+": "+err.Error())
				break
			}
			r, err := inline.Inline(&inline.Caller{Fset: pk.Fset, Types: pk.Types, Info: pk.TypesInfo, File: u.file, Call: u.call, Content: callerContent}, callee, &inline.Options{})
			if err != nil {
				res.Kept = appendUniq(res.Kept, name+": "+err.Error())
				break
			}
			content := r.Content
			nlit := 0
			if r.Literalized {
				content, nlit = deliteralize(callerName, content, iifeTexts(callerName, callerContent))
			}
			res.Overlay[callerName] = content
			touched[u.file] = true
			enc := "?"
			if u.encl != nil {
				enc = declKey(relDir, u.encl)
			}
			lit := ""
			if r.Literalized && nlit == 0 {
				lit = " (as a function literal)"
			} else if r.Literalized {
				lit = " (multi-return body expanded in place)"
			}
			res.Inlined = append(res.Inlined, enc+" <- "+name+lit)
			changed = true
			break
		}
	}
	return changed
}

func isCallSel(f *ast.File, id *ast.Ident) bool {
	found := false
	ast.Inspect(f, func(n ast.Node) bool {
		if c, ok := n.(*ast.CallExpr); ok {
			switch fun := ast.Unparen(c.Fun).(type) {
			case *ast.Ident:
				if fun == id {
					found = true
				}
			case *ast.SelectorExpr:
				if fun.Sel == id {
					found = true
				}
			}
		}
		return !found
	})
	return found
}

func appendUniq(xs []string, s string) []string {
	for _, x := range xs {
		if x == s {
			return xs
		}
	}
	return append(xs, s)
}

func fileContent(name string, res *normResult) []byte {
	if b, ok := res.Overlay[name]; ok {
		return b
	}
	b, _ := os.ReadFile(name)
	return b
}

// removeDecl deletes a function declaration (with its doc comment) from the file's current content.
func removeDecl(pk *packages.Package, f *ast.File, d *ast.FuncDecl, res *normResult) ([]byte, bool) {
	name := pk.Fset.File(f.Pos()).Name()
	content := fileContent(name, res)
	tf := pk.Fset.File(f.Pos())
	start := d.Pos()
	if d.Doc != nil {
		start = d.Doc.Pos()
	}
	so, eo := tf.Offset(start), tf.Offset(d.End())
	if so < 0 || eo > len(content) || so >= eo {
		return nil, false
	}
	out := append([]byte{}, content[:so]...)
	out = append(out, content[eo:]...)
	// must still parse and be gofmt-clean enough
	if _, err := parser.ParseFile(token.NewFileSet(), name, out, parser.SkipObjectResolution); err != nil {
		return nil, false
	}
	if fm, err := format.Source(out); err == nil {
		out = fm
	}
	// unused imports after deletion would break the build: check by type-checking is left to the next load
	// round; cheap pre-check: if an import is only referenced inside the removed range, drop it
	out = dropUnusedImports(name, out)
	return out, true
}

func dropUnusedImports(name string, src []byte) []byte {
	fset := token.NewFileSet()
	f, err := parser.ParseFile(fset, name, src, parser.ParseComments)
	if err != nil {
		return src
	}
	used := map[string]bool{}
	ast.Inspect(f, func(n ast.Node) bool {
		if se, ok := n.(*ast.SelectorExpr); ok {
			if id, ok := se.X.(*ast.Ident); ok {
				used[id.Name] = true
			}
		}
		return true
	})
	changed := false
	for _, d := range f.Decls {
		gd, ok := d.(*ast.GenDecl)
		if !ok || gd.Tok != token.IMPORT {
			continue
		}
		var keep []ast.Spec
		for _, s := range gd.Specs {
			is := s.(*ast.ImportSpec)
			p := strings.Trim(is.Path.Value, `"`)
			local := p[strings.LastIndex(p, "/")+1:]
			if is.Name != nil {
				local = is.Name.Name
			}
			if local == "_" || local == "." || used[local] || strings.Contains(local, "-") || strings.Contains(local, ".") {
				keep = append(keep, s)
				continue
			}
			// package name may differ from the last path element: keep unless it is a std-like simple path
			if strings.Contains(p, ".") && is.Name == nil {
				keep = append(keep, s)
				continue
			}
			changed = true
		}
		gd.Specs = keep
	}
	if !changed {
		return src
	}
	var buf bytes.Buffer
	if err := format.Node(&buf, fset, f); err != nil {
		return src
	}
	return buf.Bytes()
}

// writeOverlayFile writes the overlay in the format `go build -overlay` expects and returns its path.
func writeOverlayFile(ov map[string][]byte) (string, func(), error) {
	dir, err := os.MkdirTemp("", "vt-overlay-")
	if err != nil {
		return "", nil, err
	}
	repl := map[string]string{}
	i := 0
	for name, content := range ov {
		p := filepath.Join(dir, fmt.Sprintf("f%d.go", i))
		i++
		if err := os.WriteFile(p, content, 0o644); err != nil {
			return "", nil, err
		}
		repl[name] = p
	}
	b, _ := json.Marshal(map[string]interface{}{"Replace": repl})
	jp := filepath.Join(dir, "overlay.json")
	if err := os.WriteFile(jp, b, 0o644); err != nil {
		return "", nil, err
	}
	return jp, func() { os.RemoveAll(dir) }, nil
}

var _ = importer.Default

package main

// Source normalisation before analysis: helper functions that did not exist
// when the rules were confirmed against the code (they are not in the embedded
// baseline list of function names), that are unexported, non-recursive and are
// only ever called statically from their own package, are inlined back into
// their callers with the x/tools inliner (a behaviour-preserving source
// transformation; vendored copy under xt/), and their declarations removed.
// The result is handed to the loader and to `go build` as an overlay; /repo is
// never modified.  This makes the rules insensitive to "extract function"
// refactorings; it never changes the verdict on code without new helpers (the
// pre-scan finds nothing and normalisation is skipped entirely).

import (
	"bytes"
	_ "embed"
	"encoding/json"
	"fmt"
	"go/ast"
	"go/format"
	"go/importer"
	"go/parser"
	"go/token"
	"go/types"
	"os"
	"path/filepath"
	"sort"
	"strings"

	"golang.org/x/tools/go/packages"

	"verif/checker/xt/refactor/inline"
)

//go:embed known_funcs.txt
var knownFuncsRaw string

var knownFuncs = func() map[string]bool {
	m := map[string]bool{}
	for _, l := range strings.Split(knownFuncsRaw, "\n") {
		if l = strings.TrimSpace(l); l != "" {
			m[l] = true
		}
	}
	return m
}()

// declKey names a function declaration: "<module-relative dir>:<Recv>.<Name>" or "<dir>:<Name>".
func declKey(relDir string, d *ast.FuncDecl) string {
	recv := ""
	if d.Recv != nil && len(d.Recv.List) > 0 {
		t := d.Recv.List[0].Type
		for {
			switch x := t.(type) {
			case *ast.StarExpr:
				t = x.X
				continue
			case *ast.IndexExpr:
				t = x.X
				continue
			case *ast.ParenExpr:
				t = x.X
				continue
			}
			break
		}
		if id, ok := t.(*ast.Ident); ok {
			recv = id.Name + "."
		}
	}
	return relDir + ":" + recv + d.Name.Name
}

// scanFuncDecls parses (syntax only) every non-test .go file of the module and returns the declaration keys.
func scanFuncDecls(root string) (map[string]bool, error) {
	out := map[string]bool{}
	fset := token.NewFileSet()
	err := filepath.Walk(root, func(path string, info os.FileInfo, err error) error {
		if err != nil {
			return err
		}
		if info.IsDir() {
			n := info.Name()
			if path != root && (strings.HasPrefix(n, ".") || n == "testdata" || n == "vendor" || n == "dist") {
				return filepath.SkipDir
			}
			return nil
		}
		if !strings.HasSuffix(path, ".go") || strings.HasSuffix(path, "_test.go") {
			return nil
		}
		f, perr := parser.ParseFile(fset, path, nil, parser.SkipObjectResolution)
		if perr != nil {
			return nil // the typed load reports real errors
		}
		rel, _ := filepath.Rel(root, filepath.Dir(path))
		for _, d := range f.Decls {
			if fd, ok := d.(*ast.FuncDecl); ok && fd.Body != nil {
				out[declKey(rel, fd)] = true
				for _, cv := range closureVars(fd) {
					out[declKey(rel, fd)+"$"+cv.name] = true
				}
			}
		}
		return nil
	})
	return out, err
}

// closureVar is a local variable defined as a function literal (`name := func…` or `var name = func…`).
type closureVar struct {
	name string
	id   *ast.Ident
	lit  *ast.FuncLit
	stmt ast.Stmt
}

func closureVars(fd *ast.FuncDecl) []closureVar {
	var out []closureVar
	ast.Inspect(fd.Body, func(n ast.Node) bool {
		switch t := n.(type) {
		case *ast.AssignStmt:
			if t.Tok == token.DEFINE && len(t.Lhs) == 1 && len(t.Rhs) == 1 {
				if id, ok := t.Lhs[0].(*ast.Ident); ok && id.Name != "_" {
					if fl, ok := t.Rhs[0].(*ast.FuncLit); ok {
						out = append(out, closureVar{id.Name, id, fl, t})
					}
				}
			}
		case *ast.DeclStmt:
			if gd, ok := t.Decl.(*ast.GenDecl); ok && gd.Tok == token.VAR && len(gd.Specs) == 1 {
				if vs, ok := gd.Specs[0].(*ast.ValueSpec); ok && len(vs.Names) == 1 && len(vs.Values) == 1 && vs.Type == nil {
					if fl, ok := vs.Values[0].(*ast.FuncLit); ok {
						out = append(out, closureVar{vs.Names[0].Name, vs.Names[0], fl, t})
					}
				}
			}
		}
		return true
	})
	return out
}

// inlineLocalClosures replaces the direct calls of a NEW local closure variable (one that the baseline code did
// not have) by the literal itself, immediately invoked, and removes the variable; de-literalisation then splices
// the body in.  Conditions: the variable is assigned once, used only as the function of direct calls outside
// its own body, and every free name of the literal denotes the same object at each call site.
func inlineLocalClosures(pk *packages.Package, relDir string, newOnes map[string]bool, res *normResult, touched map[*ast.File]bool) bool {
	changed := false
	for _, f := range pk.Syntax {
		if touched[f] {
			continue
		}
		for _, d := range f.Decls {
			fd, ok := d.(*ast.FuncDecl)
			if !ok || fd.Body == nil || touched[f] {
				continue
			}
			for _, cv := range closureVars(fd) {
				key := declKey(relDir, fd) + "$" + cv.name
				if !newOnes[key] {
					continue
				}
				obj := pk.TypesInfo.Defs[cv.id]
				if obj == nil {
					continue
				}
				// classify the uses
				var calls []*ast.CallExpr
				bad := ""
				callFun := map[*ast.Ident]bool{}
				ast.Inspect(fd.Body, func(n ast.Node) bool {
					if c, ok := n.(*ast.CallExpr); ok {
						if id, ok := c.Fun.(*ast.Ident); ok && pk.TypesInfo.Uses[id] == obj {
							callFun[id] = true
							calls = append(calls, c)
						}
					}
					return true
				})
				ast.Inspect(fd.Body, func(n ast.Node) bool {
					if id, ok := n.(*ast.Ident); ok && pk.TypesInfo.Uses[id] == obj && !callFun[id] {
						bad = "used as a value or reassigned"
					}
					return true
				})
				for _, c := range calls {
					if c.Pos() >= cv.lit.Pos() && c.End() <= cv.lit.End() {
						bad = "recursive"
					}
					if c.Ellipsis.IsValid() {
						bad = "variadic call"
					}
				}
				if bad == "" && len(calls) == 0 {
					bad = "never called"
				}
				if bad == "" && len(calls) > 6 {
					bad = "more than 6 call sites"
				}
				// free names of the literal must mean the same thing at every call site
				if bad == "" {
					sels := map[*ast.Ident]bool{}
					ast.Inspect(cv.lit, func(n ast.Node) bool {
						switch t := n.(type) {
						case *ast.SelectorExpr:
							sels[t.Sel] = true
						case *ast.KeyValueExpr:
							if id, ok := t.Key.(*ast.Ident); ok {
								if v, isVar := pk.TypesInfo.Uses[id].(*types.Var); isVar && v.IsField() {
									sels[id] = true
								}
							}
						}
						return true
					})
					ast.Inspect(cv.lit, func(n ast.Node) bool {
						id, ok := n.(*ast.Ident)
						if !ok || sels[id] {
							return true
						}
						o := pk.TypesInfo.Uses[id]
						if o == nil || o.Pkg() == nil && o.Parent() == types.Universe {
							return true
						}
						if o.Pos() >= cv.lit.Pos() && o.Pos() < cv.lit.End() {
							return true // declared inside the literal
						}
						if _, isField := o.(*types.Var); isField && o.(*types.Var).IsField() {
							return true
						}
						if o.Parent() == nil {
							return true // methods, labels
						}
						for _, c := range calls {
							sc := pk.Types.Scope().Innermost(c.Pos())
							if sc == nil {
								bad = "no scope at a call site"
								return false
							}
							if _, at := sc.LookupParent(id.Name, c.Pos()); at != o {
								bad = "name " + id.Name + " means something else at a call site"
								return false
							}
						}
						return true
					})
				}
				if bad != "" {
					res.Kept = appendUniq(res.Kept, key+": "+bad)
					continue
				}
				name := pk.Fset.File(f.Pos()).Name()
				content := fileContent(name, res)
				tf := pk.Fset.File(f.Pos())
				litSrc := string(content[tf.Offset(cv.lit.Pos()):tf.Offset(cv.lit.End())])
				type ed struct {
					from, to int
					text   string
				}
				eds := []ed{{tf.Offset(cv.stmt.Pos()), tf.Offset(cv.stmt.End()), ""}}
				for _, c := range calls {
					eds = append(eds, ed{tf.Offset(c.Fun.Pos()), tf.Offset(c.Fun.End()), litSrc})
				}
				sort.Slice(eds, func(i, j int) bool { return eds[i].from > eds[j].from })
				out := append([]byte{}, content...)
				for _, e := range eds {
					out = append(append(append([]byte{}, out[:e.from]...), e.text...), out[e.to:]...)
				}
				old := iifeTexts(name, content)
				out2, n := deliteralize(name, out, old)
				if _, err := parser.ParseFile(token.NewFileSet(), name, out2, parser.SkipObjectResolution); err != nil {
					res.Kept = appendUniq(res.Kept, key+": rewrite does not parse")
					continue
				}
				res.Overlay[name] = out2
				touched[f] = true
				changed = true
				res.Inlined = append(res.Inlined, sprintf("%s <- local closure %s (%d call site(s), %d expanded in place)", declKey(relDir, fd), cv.name, len(calls), n))
				break
			}
		}
	}
	return changed
}

type normResult struct {
	Overlay map[string][]byte
	Inlined []string // "caller <- callee"
	Kept    []string // new helpers that could not be inlined (reason)
}

// normalizeRepo returns an overlay in which new single-package helpers are inlined.  nil overlay = nothing to do.
func normalizeRepo(goos, goarch string) (*normResult, error) {
	decls, err := scanFuncDecls(repoDir)
	if err != nil {
		return nil, err
	}
	newOnes := map[string]bool{}
	for k := range decls {
		if !knownFuncs[k] {
			newOnes[k] = true
		}
	}
	res := &normResult{}
	if len(newOnes) == 0 {
		return res, nil
	}
	env := append(os.Environ(), "GOFLAGS=-mod=mod", "GOPROXY=off", "GOSUMDB=off", "GOTOOLCHAIN=local", "GOWORK=off", "CGO_ENABLED=0")
	if goos != "" {
		env = append(env, "GOOS="+goos)
	}
	if goarch != "" {
		env = append(env, "GOARCH="+goarch)
	}
	res.Overlay = map[string][]byte{}
	// only the packages that declare a new function are (re)loaded; inlining is package-local
	dirs := map[string]bool{}
	for k := range newOnes {
		dirs[k[:strings.Index(k, ":")]] = true
	}
	var patterns []string
	for d := range dirs {
		patterns = append(patterns, "./"+d)
	}
	sort.Strings(patterns)
	var snapshot map[string][]byte
	var snapInlined []string
	for round := 0; round < 14; round++ {
		cfg := &packages.Config{
			Mode:    packages.NeedName | packages.NeedFiles | packages.NeedCompiledGoFiles | packages.NeedImports | packages.NeedTypes | packages.NeedSyntax | packages.NeedTypesInfo | packages.NeedTypesSizes,
			Dir:     repoDir,
			Env:     env,
			Overlay: res.Overlay,
		}
		pkgs, err := packages.Load(cfg, patterns...)
		if err != nil {
			return nil, err
		}
		bad := ""
		for _, pk := range pkgs {
			for _, e := range pk.Errors {
				bad += e.Error() + " | "
			}
		}
		if bad != "" {
			if round == 0 {
				// the tree itself does not type-check: the real load reports it
				res.Overlay = nil
				return res, nil
			}
			// the last round's rewrite is not valid Go: fall back to the state before it
			res.Overlay, res.Inlined = snapshot, snapInlined
			res.Kept = appendUniq(res.Kept, "normalisation stopped: rewritten source did not type-check: "+bad)
			break
		}
		snapshot = map[string][]byte{}
		for k, v := range res.Overlay {
			snapshot[k] = v
		}
		snapInlined = append([]string{}, res.Inlined...)
		if round == 13 {
			break
		}
		progress := false
		for _, pk := range pkgs {
			if !isModPkg(pk.PkgPath) {
				continue
			}
			if normalizePackage(pk, newOnes, res) {
				progress = true
			}
		}
		if !progress {
			break
		}
	}
	if len(res.Overlay) == 0 {
		res.Overlay = nil
	}
	sort.Strings(res.Inlined)
	sort.Strings(res.Kept)
	return res, nil
}

// normalizePackage performs at most one inlining per file of the package (positions go stale after an edit);
// returns whether anything changed.
func normalizePackage(pk *packages.Package, newOnes map[string]bool, res *normResult) bool {
	relDir := strings.TrimPrefix(strings.TrimPrefix(pk.PkgPath, modPath), "/")
	if relDir == "" {
		relDir = "."
	}
	// candidate callees: new, unexported, with body, declared in this package
	type cand struct {
		decl *ast.FuncDecl
		file *ast.File
		obj  *types.Func
	}
	cands := map[*types.Func]*cand{}
	for _, f := range pk.Syntax {
		for _, d := range f.Decls {
			fd, ok := d.(*ast.FuncDecl)
			if !ok || fd.Body == nil || fd.Name.IsExported() {
				continue
			}
			if !newOnes[declKey(relDir, fd)] {
				continue
			}
			if obj, ok := pk.TypesInfo.Defs[fd.Name].(*types.Func); ok {
				cands[obj] = &cand{fd, f, obj}
			}
		}
	}
	touched := map[*ast.File]bool{}
	changed := inlineLocalClosures(pk, relDir, newOnes, res, touched)
	if len(cands) == 0 {
		return changed
	}
	// uses: static calls vs other uses
	type use struct {
		call *ast.CallExpr
		file *ast.File
		encl *ast.FuncDecl
	}
	calls := map[*types.Func][]use{}
	valueUse := map[*types.Func]bool{}
	for _, f := range pk.Syntax {
		var encl *ast.FuncDecl
		callFuns := map[ast.Expr]bool{}
		ast.Inspect(f, func(n ast.Node) bool {
			switch t := n.(type) {
			case *ast.FuncDecl:
				encl = t
			case *ast.CallExpr:
				var id *ast.Ident
				switch fun := ast.Unparen(t.Fun).(type) {
				case *ast.Ident:
					id = fun
				case *ast.SelectorExpr:
					id = fun.Sel
				}
				if id != nil {
					if obj, ok := pk.TypesInfo.Uses[id].(*types.Func); ok && cands[obj] != nil {
						calls[obj] = append(calls[obj], use{t, f, encl})
						callFuns[t.Fun] = true
						callFuns[id] = true
					}
				}
			}
			return true
		})
		ast.Inspect(f, func(n ast.Node) bool {
			if id, ok := n.(*ast.Ident); ok && !callFuns[id] {
				if obj, ok := pk.TypesInfo.Uses[id].(*types.Func); ok && cands[obj] != nil {
					// is this ident the Sel of a call Fun?
					valueUse[obj] = valueUse[obj] || !isCallSel(f, id)
				}
			}
			return true
		})
	}
	// deterministic order
	var objs []*types.Func
	for o := range cands {
		objs = append(objs, o)
	}
	sort.Slice(objs, func(i, j int) bool { return objs[i].Pos() < objs[j].Pos() })
	for _, obj := range objs {
		c := cands[obj]
		name := declKey(relDir, c.decl)
		if valueUse[obj] {
			res.Kept = appendUniq(res.Kept, name+": used as a value")
			continue
		}
		us := calls[obj]
		if len(us) == 0 {
			// unused (all call sites already inlined): drop the declaration
			if !touched[c.file] {
				if content, ok := removeDecl(pk, c.file, c.decl, res); ok {
					res.Overlay[pk.Fset.File(c.file.Pos()).Name()] = content
					touched[c.file] = true
					changed = true
				}
			}
			continue
		}
		if len(us) > 4 {
			res.Kept = appendUniq(res.Kept, name+": more than 4 call sites")
			continue
		}
		// recursion
		rec := false
		for _, u := range us {
			if u.encl == c.decl {
				rec = true
			}
		}
		if rec {
			res.Kept = appendUniq(res.Kept, name+": recursive")
			continue
		}
		// inline the first call site whose file has not been edited in this pass
		for _, u := range us {
			if touched[u.file] || touched[c.file] {
				continue
			}
			callerName := pk.Fset.File(u.file.Pos()).Name()
			calleeName := pk.Fset.File(c.file.Pos()).Name()
			callerContent := fileContent(callerName, res)
			calleeContent := fileContent(calleeName, res)
			callee, err := inline.AnalyzeCallee(func(string, ...any) {}, pk.Fset, pk.Types, pk.TypesInfo, c.decl, calleeContent)
			if err != nil {
				res.Kept = appendUniq(res.Kept, name+": "+err.Error())
				break
			}
			r, err := inline.Inline(&inline.Caller{Fset: pk.Fset, Types: pk.Types, Info: pk.TypesInfo, File: u.file, Call: u.call, Content: callerContent}, callee, &inline.Options{})
			if err != nil {
				res.Kept = appendUniq(res.Kept, name+": "+err.Error())
				break
			}
			content := r.Content
			nlit := 0
			if r.Literalized {
				content, nlit = deliteralize(callerName, content, iifeTexts(callerName, callerContent))
			}
			res.Overlay[callerName] = content
			touched[u.file] = true
			enc := "?"
			if u.encl != nil {
				enc = declKey(relDir, u.encl)
			}
			lit := ""
			if r.Literalized && nlit == 0 {
				lit = " (as a function literal)"
			} else if r.Literalized {
				lit = " (multi-return body expanded in place)"
			}
			res.Inlined = append(res.Inlined, enc+" <- "+name+lit)
			changed = true
			break
		}
	}
	return changed
}

func isCallSel(f *ast.File, id *ast.Ident) bool {
	found := false
	ast.Inspect(f, func(n ast.Node) bool {
		if c, ok := n.(*ast.CallExpr); ok {
			switch fun := ast.Unparen(c.Fun).(type) {
			case *ast.Ident:
				if fun == id {
					found = true
				}
			case *ast.SelectorExpr:
				if fun.Sel == id {
					found = true
				}
			}
		}
		return !found
	})
	return found
}

func appendUniq(xs []string, s string) []string {
	for _, x := range xs {
		if x == s {
			return xs
		}
	}
	return append(xs, s)
}

func fileContent(name string, res *normResult) []byte {
	if b, ok := res.Overlay[name]; ok {
		return b
	}
	b, _ := os.ReadFile(name)
	return b
}

// removeDecl deletes a function declaration (with its doc comment) from the file's current content.
func removeDecl(pk *packages.Package, f *ast.File, d *ast.FuncDecl, res *normResult) ([]byte, bool) {
	name := pk.Fset.File(f.Pos()).Name()
	content := fileContent(name, res)
	tf := pk.Fset.File(f.Pos())
	start := d.Pos()
	if d.Doc != nil {
		start = d.Doc.Pos()
	}
	so, eo := tf.Offset(start), tf.Offset(d.End())
	if so < 0 || eo > len(content) || so >= eo {
		return nil, false
	}
	out := append([]byte{}, content[:so]...)
	out = append(out, content[eo:]...)
	// must still parse and be gofmt-clean enough
	if _, err := parser.ParseFile(token.NewFileSet(), name, out, parser.SkipObjectResolution); err != nil {
		return nil, false
	}
	if fm, err := format.Source(out); err == nil {
		out = fm
	}
	// unused imports after deletion would break the build: check by type-checking is left to the next load
	// round; cheap pre-check: if an import is only referenced inside the removed range, drop it
	out = dropUnusedImports(name, out)
	return out, true
}

func dropUnusedImports(name string, src []byte) []byte {
	fset := token.NewFileSet()
	f, err := parser.ParseFile(fset, name, src, parser.ParseComments)
	if err != nil {
		return src
	}
	used := map[string]bool{}
	ast.Inspect(f, func(n ast.Node) bool {
		if se, ok := n.(*ast.SelectorExpr); ok {
			if id, ok := se.X.(*ast.Ident); ok {
				used[id.Name] = true
			}
		}
		return true
	})
	changed := false
	for _, d := range f.Decls {
		gd, ok := d.(*ast.GenDecl)
		if !ok || gd.Tok != token.IMPORT {
			continue
		}
		var keep []ast.Spec
		for _, s := range gd.Specs {
			is := s.(*ast.ImportSpec)
			p := strings.Trim(is.Path.Value, `"`)
			local := p[strings.LastIndex(p, "/")+1:]
			if is.Name != nil {
				local = is.Name.Name
			}
			if local == "_" || local == "." || used[local] || strings.Contains(local, "-") || strings.Contains(local, ".") {
				keep = append(keep, s)
				continue
			}
			// package name may differ from the last path element: keep unless it is a std-like simple path
			if strings.Contains(p, ".") && is.Name == nil {
				keep = append(keep, s)
				continue
			}
			changed = true
		}
		gd.Specs = keep
	}
	if !changed {
		return src
	}
	var buf bytes.Buffer
	if err := format.Node(&buf, fset, f); err != nil {
		return src
	}
	return buf.Bytes()
}

// writeOverlayFile writes the overlay in the format `go build -overlay` expects and returns its path.
func writeOverlayFile(ov map[string][]byte) (string, func(), error) {
	dir, err := os.MkdirTemp("", "vt-overlay-")
	if err != nil {
		return "", nil, err
	}
	repl := map[string]string{}
	i := 0
	for name, content := range ov {
		p := filepath.Join(dir, fmt.Sprintf("f%d.go", i))
		i++
		if err := os.WriteFile(p, content, 0o644); err != nil {
			return "", nil, err
		}
		repl[name] = p
	}
	b, _ := json.Marshal(map[string]interface{}{"Replace": repl})
	jp := filepath.Join(dir, "overlay.json")
	if err := os.WriteFile(jp, b, 0o644); err != nil {
		return "", nil, err
	}
	return jp, func() { os.RemoveAll(dir) }, nil
}

var _ = importer.Default

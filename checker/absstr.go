package main

// E10, string domain: strings as sequences of literal text and opaque symbols.
//
// A host name is abstracted as labels separated by literal dots, a path as a literal '/' followed by opaque bytes.
// A symbol stands for "some non-empty text that contains none of the separator characters the code looks for"
// (label symbols) or "some single byte that is not a separator" (byte symbols); two different symbols stand for
// different texts.  Label symbols carry a case flag so that lower-casing is observable: ToLower(L) is a different
// value from L, and idempotent.  Under that abstraction Split/Join/Cut/HasPrefix/concatenation/indexing are
// exact, and two abstract strings are equal iff their normal forms are.  Maps are keyed by the normal form.

import (
	"fmt"
	"go/token"
	"go/types"
	"net"
	"net/textproto"
	"path"
	"sort"
	"strconv"
	"strings"
	"unicode"

	"golang.org/x/tools/go/ssa"
)

type atom struct {
	lit   string // literal text (when sym == "")
	sym   string // opaque symbol name
	lower bool   // symbol has been lower-cased
	cv    int    // case variant of a not yet lower-cased symbol (two spellings of one name differ only here)
	byte1 bool   // symbol is exactly one byte long
}

type astrv struct{ atoms []atom }

// aend: the length of a particular abstract string minus back (a position counted from its end).
type aend struct {
	key  string // normal form of the string it measures
	back int64
	min  int64 // lower bound of the length
}

// alo: some integer that is at least min (the length of a string containing labels of unknown, non-zero length).
type alo struct{ min int64 }

// apos: a position inside an abstract string that has labels of unknown length before it: the start of atom ai,
// plus off bytes into that (literal) atom, plus delta.  Always >= 0.
type apos struct {
	ai, off int
	delta   int64
}

// avals: a slice of values (cells hold the value at path "").
// spare: cells of the same backing array beyond the slice's length (what x[:n] leaves behind): an append
// overwrites them in place, as it does in the language, so that slices sharing the array see it
type avals struct {
	cells []*aobj
	spare []*aobj
}

// amap: a reference to a map keyed by the normal form of abstract values.
type amap struct{ m *amapData }
type amapIter struct {
	m    amap
	keys []string
	i    int
}
type amapData struct {
	// open: keys for which absence is not known (the map may contain entries the case does not model); a lookup of
	// such a key is outside the abstraction and is explored both ways
	open func(key string) bool
	vals map[string]aval
	keys map[string]aval
	typ  *types.Map
}

func symLabel(name string) aval { return astrv{[]atom{{sym: name}}} }
func symByte(name string) atom  { return atom{sym: name, byte1: true} }
func litAtoms(s string) []atom  { return []atom{{lit: s}} }
func strOf(atoms ...atom) aval  { return mkStr(atoms) }
func concatStr(parts ...aval) aval {
	var all []atom
	for _, p := range parts {
		a, ok := toAtoms(p)
		if !ok {
			return aunk{"concatenation with " + describeAval(p)}
		}
		all = append(all, a...)
	}
	return mkStr(all)
}

func toAtoms(v aval) ([]atom, bool) {
	switch t := v.(type) {
	case astr:
		if t == "" {
			return nil, true
		}
		return []atom{{lit: string(t)}}, true
	case astrv:
		return t.atoms, true
	}
	return nil, false
}

// mkStr normalises: merges adjacent literals, drops empty ones; all-literal strings become astr.
func mkStr(atoms []atom) aval {
	var out []atom
	for _, a := range atoms {
		if a.sym == "" {
			if a.lit == "" {
				continue
			}
			if n := len(out); n > 0 && out[n-1].sym == "" {
				out[n-1].lit += a.lit
				continue
			}
		}
		out = append(out, a)
	}
	if len(out) == 0 {
		return astr("")
	}
	if len(out) == 1 && out[0].sym == "" {
		return astr(out[0].lit)
	}
	return astrv{out}
}

func renderAtoms(atoms []atom) string {
	var b strings.Builder
	for _, a := range atoms {
		if a.sym == "" {
			b.WriteString(a.lit)
			continue
		}
		b.WriteString("‹" + a.sym)
		if a.lower {
			b.WriteString("↓")
		} else if a.cv != 0 {
			b.WriteString(fmt.Sprintf("#%d", a.cv))
		}
		b.WriteString("›")
	}
	return b.String()
}

// keyOf: normal form used as map key and for equality.
func keyOf(v aval) (string, bool) {
	switch t := v.(type) {
	case astr:
		return "s:" + string(t), true
	case astrv:
		return "s:" + renderAtoms(t.atoms), true
	case aint:
		return fmt.Sprintf("i:%d", int64(t)), true
	case abool:
		return fmt.Sprintf("b:%v", bool(t)), true
	case aptr:
		return fmt.Sprintf("p:%p/%s", t.obj, t.path), true
	}
	return "", false
}

// chars explodes atoms into single-position atoms; ok is false when a symbol of unknown length occurs.
func chars(atoms []atom) ([]atom, bool) {
	var out []atom
	for _, a := range atoms {
		if a.sym != "" {
			if !a.byte1 {
				return nil, false
			}
			out = append(out, a)
			continue
		}
		for i := 0; i < len(a.lit); i++ {
			out = append(out, atom{lit: a.lit[i : i+1]})
		}
	}
	return out, true
}

// splitAtoms splits at every occurrence of the literal separator (symbols never contain it).
func splitAtoms(atoms []atom, sep string, n int) [][]atom {
	var parts [][]atom
	var cur []atom
	for _, a := range atoms {
		if a.sym != "" {
			cur = append(cur, a)
			continue
		}
		rest := a.lit
		for {
			if n > 0 && len(parts) == n-1 {
				break
			}
			i := strings.Index(rest, sep)
			if i < 0 {
				break
			}
			cur = append(cur, atom{lit: rest[:i]})
			parts = append(parts, cur)
			cur = nil
			rest = rest[i+len(sep):]
		}
		cur = append(cur, atom{lit: rest})
	}
	return append(parts, cur)
}

func newVals(vs []aval, elem types.Type) avals {
	var out avals
	for i, v := range vs {
		c := &aobj{name: fmt.Sprintf("elem%d", i), typ: elem, f: map[string]aval{}}
		if sv, ok := v.(astruct); ok {
			for k, x := range sv.f {
				c.f[k] = x // struct elements are stored field-wise, so that &s[i].f addresses them
			}
		} else {
			c.f[""] = v
		}
		out.cells = append(out.cells, c)
	}
	return out
}

func hasPrefixAtoms(a, p []atom) (bool, bool) {
	// compare position-wise on the rendered normal form; exact when p is literal-only or structurally aligned
	ra, rp := renderAtoms(a), renderAtoms(p)
	if strings.HasPrefix(ra, rp) {
		// make sure we did not cut a symbol marker in half
		rest := ra[len(rp):]
		if strings.Count(rp, "‹") == strings.Count(rp, "›") && strings.Count(rest, "‹") == strings.Count(rest, "›") {
			return true, true
		}
	}
	// a literal prefix can only be contradicted by literal text or by a symbol in its way (symbols contain no separators,
	// and the prefixes the code tests are separators)
	return false, true
}

// strCall implements the pure string helpers of the standard library over the abstract domain.
func (e *absEnv) strCall(name string, args []aval) (aval, bool) {
	at := func(i int) []atom {
		a, _ := toAtoms(args[i])
		return a
	}
	isStr := func(i int) bool {
		if i >= len(args) {
			return false
		}
		_, ok := toAtoms(args[i])
		return ok
	}
	lit := func(i int) (string, bool) {
		s, ok := args[i].(astr)
		return string(s), ok
	}
	strT := types.Typ[types.String]
	switch name {
	case "path.Clean", "path/filepath.ToSlash", "strings.ToUpper", "strings.Title", "path.Dir", "path.Base", "path.Ext", "path.IsAbs":
		// concrete strings only: the real function
		if a, ok := lit(0); ok && len(args) == 1 {
			switch name {
			case "path.Clean":
				return astr(path.Clean(a)), true
			case "path.Dir":
				return astr(path.Dir(a)), true
			case "path.Base":
				return astr(path.Base(a)), true
			case "path.Ext":
				return astr(path.Ext(a)), true
			case "path.IsAbs":
				return abool(path.IsAbs(a)), true
			case "path/filepath.ToSlash":
				return astr(a), true // evaluated for a slash-separated platform
			case "strings.ToUpper":
				return astr(strings.ToUpper(a)), true
			}
		}
		return nil, false
	case "strings.Count":
		if len(args) == 2 {
			if a, ok := lit(0); ok {
				if b, ok := lit(1); ok {
					return aint(int64(strings.Count(a, b))), true
				}
			}
		}
		return nil, false
	case "strings.ToLower":
		if !isStr(0) {
			return nil, false
		}
		var out []atom
		for _, a := range at(0) {
			if a.sym != "" {
				a.lower, a.cv = true, 0
			} else {
				a.lit = strings.ToLower(a.lit)
			}
			out = append(out, a)
		}
		return mkStr(out), true
	case "strings.TrimSpace":
		if isStr(0) {
			a := append([]atom{}, at(0)...) // symbols carry no surrounding blanks
			if n := len(a); n > 0 {
				if a[0].sym == "" {
					a[0].lit = strings.TrimLeft(a[0].lit, " \t\r\n")
				}
				if a[n-1].sym == "" {
					a[n-1].lit = strings.TrimRight(a[n-1].lit, " \t\r\n")
				}
			}
			return mkStr(a), true
		}
	case "strings.Split", "strings.SplitN":
		sep, ok := lit(1)
		if !ok || sep == "" || !isStr(0) {
			return nil, false
		}
		n := -1
		if name == "strings.SplitN" {
			c, ok := args[2].(aint)
			if !ok {
				return nil, false
			}
			n = int(c)
		}
		var vs []aval
		for _, p := range splitAtoms(at(0), sep, n) {
			vs = append(vs, mkStr(p))
		}
		return newVals(vs, strT), true
	case "strings.Fields":
		if s, ok := lit(0); ok {
			var vs []aval
			for _, f := range strings.Fields(s) {
				vs = append(vs, astr(f))
			}
			return newVals(vs, strT), true
		}
		return nil, false
	case "strings.Cut":
		sep, ok := lit(1)
		if !ok || sep == "" || !isStr(0) {
			return nil, false
		}
		parts := splitAtoms(at(0), sep, 2)
		if len(parts) == 1 {
			return atuple{args[0], astr(""), abool(false)}, true
		}
		return atuple{mkStr(parts[0]), mkStr(parts[1]), abool(true)}, true
	case "strings.Join":
		sep, ok := lit(1)
		sl, ok2 := args[0].(avals)
		if !ok || !ok2 {
			return nil, false
		}
		var all []atom
		for i, c := range sl.cells {
			if i > 0 {
				all = append(all, atom{lit: sep})
			}
			a, ok := toAtoms(c.f[""])
			if !ok {
				return aunk{"Join of " + describeAval(c.f[""])}, true
			}
			all = append(all, a...)
		}
		return mkStr(all), true
	case "strings.HasPrefix", "strings.HasSuffix":
		if !isStr(0) || !isStr(1) {
			return nil, false
		}
		ra, rp := renderAtoms(at(0)), renderAtoms(at(1))
		if name == "strings.HasPrefix" {
			return abool(strings.HasPrefix(ra, rp)), true
		}
		return abool(strings.HasSuffix(ra, rp)), true
	case "strings.TrimPrefix", "strings.TrimSuffix", "strings.CutPrefix", "strings.CutSuffix":
		if !isStr(0) || !isStr(1) {
			return nil, false
		}
		p, ok := lit(1)
		if !ok {
			return nil, false
		}
		a := append([]atom{}, at(0)...)
		found := false
		if strings.HasSuffix(name, "Prefix") {
			if len(a) > 0 && a[0].sym == "" && strings.HasPrefix(a[0].lit, p) {
				a[0].lit = a[0].lit[len(p):]
				found = true
			}
		} else if n := len(a); n > 0 && a[n-1].sym == "" && strings.HasSuffix(a[n-1].lit, p) {
			a[n-1].lit = strings.TrimSuffix(a[n-1].lit, p)
			found = true
		}
		if p == "" {
			found = true
		}
		if strings.HasPrefix(name, "strings.Cut") {
			if !found {
				return atuple{args[0], abool(false)}, true
			}
			return atuple{mkStr(a), abool(true)}, true
		}
		return mkStr(a), true
	case "strings.Contains":
		if !isStr(0) {
			return nil, false
		}
		p, ok := lit(1)
		if !ok {
			return nil, false
		}
		for _, a := range at(0) {
			if a.sym == "" && strings.Contains(a.lit, p) {
				return abool(true), true
			}
		}
		return abool(false), true
	case "strings.Index", "strings.IndexByte", "strings.LastIndex", "strings.LastIndexByte":
		if !isStr(0) {
			return nil, false
		}
		var p string
		if strings.HasSuffix(name, "Byte") {
			c, ok := args[1].(aint)
			if !ok {
				return nil, false
			}
			p = string(rune(c))
		} else {
			var ok bool
			if p, ok = lit(1); !ok {
				return nil, false
			}
		}
		cs, ok := chars(at(0))
		if !ok {
			// unknown lengths before the match: position not representable; only 'absent' is exact
			as := at(0)
			if strings.HasPrefix(name, "strings.Last") {
				for i := len(as) - 1; i >= 0; i-- {
					if as[i].sym == "" {
						if j := strings.LastIndex(as[i].lit, p); j >= 0 {
							return apos{ai: i, off: j}, true
						}
					}
				}
				return aint(-1), true
			}
			for i, a := range as {
				if a.sym == "" {
					if j := strings.Index(a.lit, p); j >= 0 {
						return apos{ai: i, off: j}, true
					}
				}
			}
			return aint(-1), true
		}
		var flat strings.Builder
		for _, c := range cs {
			if c.sym != "" {
				flat.WriteByte(0)
			} else {
				flat.WriteString(c.lit)
			}
		}
		if strings.HasPrefix(name, "strings.Last") {
			return aint(strings.LastIndex(flat.String(), p)), true
		}
		return aint(strings.Index(flat.String(), p)), true
	case "strings.EqualFold":
		if !isStr(0) || !isStr(1) {
			return nil, false
		}
		lo := func(as []atom) string {
			var out []atom
			for _, a := range as {
				if a.sym != "" {
					a.lower, a.cv = true, 0
				} else {
					a.lit = strings.ToLower(a.lit)
				}
				out = append(out, a)
			}
			return renderAtoms(out)
		}
		return abool(lo(at(0)) == lo(at(1))), true
	case "strings.Trim", "strings.TrimLeft", "strings.TrimRight":
		if !isStr(0) {
			return nil, false
		}
		cut, ok := lit(1)
		if !ok {
			return nil, false
		}
		a := append([]atom{}, at(0)...)
		if n := len(a); n > 0 {
			if a[0].sym == "" && name != "strings.TrimRight" {
				a[0].lit = strings.TrimLeft(a[0].lit, cut)
			}
			if a[n-1].sym == "" && name != "strings.TrimLeft" {
				a[n-1].lit = strings.TrimRight(a[n-1].lit, cut)
			}
		}
		return mkStr(a), true
	case "net.JoinHostPort":
		if !isStr(0) || !isStr(1) {
			return nil, false
		}
		if strings.Contains(renderAtoms(at(0)), ":") {
			return concatStr(astr("["), args[0], astr("]:"), args[1]), true
		}
		return concatStr(args[0], astr(":"), args[1]), true
	case "net.SplitHostPort":
		if !isStr(0) {
			return nil, false
		}
		if s0, ok := args[0].(astr); ok {
			// a concrete address: the library's own answer
			h, p, err := net.SplitHostPort(string(s0))
			if err != nil {
				return atuple{astr(""), astr(""), aptr{&aobj{name: "err:" + err.Error(), typ: types.Typ[types.Int], f: map[string]aval{}}, ""}}, true
			}
			return atuple{astr(h), astr(p), anil{}}, true
		}
		a := at(0)
		// host:port with a literal ':' before a literal port; otherwise the "missing port" error
		if n := len(a); n > 0 && a[n-1].sym == "" {
			if i := strings.LastIndex(a[n-1].lit, ":"); i >= 0 && !strings.Contains(renderAtoms(a[:n-1])+a[n-1].lit[:i], ":") {
				host := append(append([]atom{}, a[:n-1]...), atom{lit: a[n-1].lit[:i]})
				if hn := len(host); hn >= 2 && host[0].sym == "" && strings.HasPrefix(host[0].lit, "[") && host[hn-1].sym == "" && strings.HasSuffix(host[hn-1].lit, "]") {
					host[0].lit = host[0].lit[1:]
					host[hn-1].lit = strings.TrimSuffix(host[hn-1].lit, "]")
				}
				return atuple{mkStr(host), astr(a[n-1].lit[i+1:]), anil{}}, true
			}
		}
		return atuple{astr(""), astr(""), aptr{&aobj{name: "err:missing port", typ: types.Typ[types.Int], f: map[string]aval{}}, ""}}, true
	}
	return nil, false
}

// strBinop handles concatenation and comparison of abstract strings (and of single bytes taken from them).
func strBinop(op token.Token, a, b aval) (aval, bool) {
	if x, ok := a.(aend); ok {
		if c, ok := b.(aint); ok {
			switch op {
			case token.SUB:
				x.back += int64(c)
				return x, true
			case token.ADD:
				x.back -= int64(c)
				return x, true
			}
			return strBinop(op, alo{x.min - x.back}, c)
		}
	}
	if x, ok := b.(aend); ok {
		if c, ok := a.(aint); ok {
			return strBinop(op, c, alo{x.min - x.back})
		}
	}
	if x, ok := a.(alo); ok {
		if c, ok := b.(aint); ok {
			switch {
			case int64(c) < x.min:
				switch op {
				case token.GTR, token.GEQ, token.NEQ:
					return abool(true), true
				case token.LSS, token.LEQ, token.EQL:
					return abool(false), true
				}
			case int64(c) == x.min:
				switch op {
				case token.GEQ:
					return abool(true), true
				case token.LSS:
					return abool(false), true
				}
			}
		}
	}
	if x, ok := b.(alo); ok {
		if c, ok := a.(aint); ok {
			// c op x  ==  x op' c
			mirror := map[token.Token]token.Token{token.LSS: token.GTR, token.GTR: token.LSS, token.LEQ: token.GEQ, token.GEQ: token.LEQ, token.EQL: token.EQL, token.NEQ: token.NEQ}
			if m, ok := mirror[op]; ok {
				return strBinop(m, x, c)
			}
		}
	}
	if p, ok := a.(apos); ok {
		if c, ok := b.(aint); ok {
			switch op {
			case token.ADD:
				p.delta += int64(c)
				return p, true
			case token.SUB:
				p.delta -= int64(c)
				return p, true
			}
			if c < 0 && p.delta >= 0 {
				switch op {
				case token.EQL, token.LSS, token.LEQ:
					return abool(false), true
				case token.NEQ, token.GTR, token.GEQ:
					return abool(true), true
				}
			}
			if c == 0 && p.delta >= 0 {
				switch op {
				case token.LSS:
					return abool(false), true
				case token.GEQ:
					return abool(true), true
				}
			}
		}
	}
	if p, ok := b.(apos); ok {
		if c, ok := a.(aint); ok && op == token.ADD {
			p.delta += int64(c)
			return p, true
		}
	}
	aa, oka := toAtoms(a)
	ba, okb := toAtoms(b)
	if oka && okb {
		switch op {
		case token.ADD:
			return mkStr(append(append([]atom{}, aa...), ba...)), true
		case token.EQL:
			return abool(renderAtoms(aa) == renderAtoms(ba)), true
		case token.NEQ:
			return abool(renderAtoms(aa) != renderAtoms(ba)), true
		}
	}
	// a byte taken from an abstract string compared with a character constant
	cmpByte := func(s []atom, c aint) (bool, bool) {
		if len(s) != 1 {
			return false, false
		}
		if s[0].sym != "" {
			return false, s[0].byte1 // a symbol byte is no particular character
		}
		if len(s[0].lit) != 1 {
			return false, false
		}
		return int64(s[0].lit[0]) == int64(c), true
	}
	if c, ok := b.(aint); ok && oka {
		if eq, ok := cmpByte(aa, c); ok {
			switch op {
			case token.EQL:
				return abool(eq), true
			case token.NEQ:
				return abool(!eq), true
			}
		}
	}
	if c, ok := a.(aint); ok && okb {
		if eq, ok := cmpByte(ba, c); ok {
			switch op {
			case token.EQL:
				return abool(eq), true
			case token.NEQ:
				return abool(!eq), true
			}
		}
	}
	return nil, false
}

// strIndex: s[i] for a known position.
func strIndex(s aval, i int64) (aval, bool) {
	a, ok := toAtoms(s)
	if !ok {
		return nil, false
	}
	cs, ok := chars(a)
	if !ok || i < 0 || int(i) >= len(cs) {
		return nil, false
	}
	if cs[i].sym == "" {
		return aint(cs[i].lit[0]), true
	}
	return astrv{[]atom{cs[i]}}, true
}

// strSlice: s[lo:hi] for known positions (hi < 0: to the end).
func strSlice(s aval, lo, hi int64) (aval, bool) {
	a, ok := toAtoms(s)
	if !ok {
		return nil, false
	}
	if lo == 0 && hi < 0 {
		return s, true
	}
	// positions are only needed from the front: walk atoms until lo (and hi) are consumed
	var out []atom
	pos := int64(0)
	for _, x := range a {
		n := int64(-1)
		switch {
		case x.sym == "":
			n = int64(len(x.lit))
		case x.byte1:
			n = 1
		}
		if n < 0 {
			// unknown length: fine only when the whole cut lies before it or it lies wholly inside [lo, end)
			if pos < lo || hi >= 0 {
				return nil, false
			}
			out = append(out, x)
			continue
		}
		st, en := pos, pos+n
		pos = en
		if en <= lo || (hi >= 0 && st >= hi) {
			continue
		}
		if x.sym != "" {
			out = append(out, x)
			continue
		}
		from, to := int64(0), n
		if lo > st {
			from = lo - st
		}
		if hi >= 0 && hi < en {
			to = hi - st
		}
		out = append(out, atom{lit: x.lit[from:to]})
	}
	if lo > pos || (hi >= 0 && hi > pos) {
		return nil, false
	}
	return mkStr(out), true
}

// cutAt resolves a position (aint or apos) to (atom index, offset inside that atom).
func cutAt(atoms []atom, pos aval) (int, int, bool) {
	walk := func(ai, off int, d int64) (int, int, bool) {
		for d != 0 {
			if d > 0 {
				if ai >= len(atoms) {
					return 0, 0, false
				}
				a := atoms[ai]
				n := -1
				if a.sym == "" {
					n = len(a.lit)
				} else if a.byte1 {
					n = 1
				}
				if n < 0 {
					return 0, 0, false
				}
				room := int64(n - off)
				if d < room {
					off += int(d)
					d = 0
				} else {
					d -= room
					ai, off = ai+1, 0
				}
			} else {
				if off > 0 {
					step := int64(off)
					if -d < step {
						step = -d
					}
					off -= int(step)
					d += step
					continue
				}
				if ai == 0 {
					return 0, 0, false
				}
				ai--
				a := atoms[ai]
				switch {
				case a.sym == "":
					off = len(a.lit)
				case a.byte1:
					off = 1
				default:
					return 0, 0, false
				}
			}
		}
		if ai < len(atoms) && atoms[ai].sym == "" && off == len(atoms[ai].lit) {
			ai, off = ai+1, 0
		}
		return ai, off, true
	}
	switch p := pos.(type) {
	case aint:
		if p < 0 {
			return 0, 0, false
		}
		return walk(0, 0, int64(p))
	case apos:
		return walk(p.ai, p.off, p.delta)
	case aend:
		if p.key != renderAtoms(atoms) || p.back < 0 {
			return 0, 0, false
		}
		return walk(len(atoms), 0, -p.back)
	}
	return 0, 0, false
}

// strSliceCut: s[lo:hi] with positions given as aint or apos (nil: open end).
func strSliceCut(s aval, lo, hi aval) (aval, bool) {
	atoms, ok := toAtoms(s)
	if !ok {
		return nil, false
	}
	la, lo0 := 0, 0
	if lo != nil {
		if la, lo0, ok = cutAt(atoms, lo); !ok {
			return nil, false
		}
	}
	ha, ho := len(atoms), 0
	if hi != nil {
		if ha, ho, ok = cutAt(atoms, hi); !ok {
			return nil, false
		}
	}
	if la > ha || (la == ha && lo0 > ho) {
		return nil, false
	}
	var out []atom
	for i := la; i <= ha && i < len(atoms); i++ {
		a := atoms[i]
		if a.sym != "" {
			// symbols are taken whole: cuts fall on their boundaries (offset 0)
			if i == ha {
				continue // hi cut at the start of this symbol
			}
			if i == la && lo0 != 0 {
				return nil, false
			}
			out = append(out, a)
			continue
		}
		from, to := 0, len(a.lit)
		if i == la {
			from = lo0
		}
		if i == ha {
			to = ho
		}
		if from > to {
			return nil, false
		}
		out = append(out, atom{lit: a.lit[from:to]})
	}
	return mkStr(out), true
}

func strLen(s aval) (int64, bool) {
	a, ok := toAtoms(s)
	if !ok {
		return 0, false
	}
	cs, ok := chars(a)
	return int64(len(cs)), ok
}

// instrStr handles the SSA instructions whose operands are abstract strings, value slices or maps.
// It returns false when the instruction is not one of those (the caller's generic code then applies).
func (e *absEnv) instrStr(fr *absFrame, in ssa.Instruction) bool {
	switch t := in.(type) {
	case *ssa.MakeMap:
		md := &amapData{vals: map[string]aval{}, keys: map[string]aval{}, typ: underlying(t.Type()).(*types.Map)}
		if e.newMapOpen != nil && strings.HasSuffix(t.Type().String(), "net/http.Header") {
			md.open = e.newMapOpen // a header map made here is filled from the request's: it may hold what that one may hold
		}
		fr.regs[t] = amap{md}
		return true
	case *ssa.MapUpdate:
		m, ok := e.val(fr, t.Map).(amap)
		if !ok {
			return true
		}
		k, ok := keyOf(e.val(fr, t.Key))
		if !ok {
			e.abort("map key outside the abstraction: %s", describeAval(e.val(fr, t.Key)))
		}
		m.m.vals[k] = e.val(fr, t.Value)
		m.m.keys[k] = e.val(fr, t.Key)
		return true
	case *ssa.Lookup:
		x := e.val(fr, t.X)
		if m, ok := x.(amap); ok {
			k, ok := keyOf(e.val(fr, t.Index))
			if !ok {
				e.abort("map key outside the abstraction: %s", describeAval(e.val(fr, t.Index)))
			}
			v, present := m.m.vals[k]
			if !present {
				v = zeroOf(m.m.typ.Elem())
			}
			if t.CommaOk {
				fr.regs[t] = atuple{v, abool(present)}
			} else {
				fr.regs[t] = v
			}
			return true
		}
		if _, isNil := x.(anil); isNil {
			if mt, ok := underlying(t.X.Type()).(*types.Map); ok {
				if t.CommaOk {
					fr.regs[t] = atuple{zeroOf(mt.Elem()), abool(false)}
				} else {
					fr.regs[t] = zeroOf(mt.Elem())
				}
				return true
			}
		}
		if idx, ok := e.val(fr, t.Index).(aint); ok {
			if v, ok := strIndex(x, int64(idx)); ok {
				fr.regs[t] = v
				return true
			}
		}
		return false
	case *ssa.Slice:
		x := e.val(fr, t.X)
		if _, isS := toAtoms(x); isS {
			var lov, hiv aval
			if t.Low != nil {
				lov = e.val(fr, t.Low)
			}
			if t.High != nil {
				hiv = e.val(fr, t.High)
			}
			if v, ok := strSliceCut(x, lov, hiv); ok {
				fr.regs[t] = v
				return true
			}
			e.abort("string slice at a position the abstraction cannot place (%s[%s:%s])", describeAval(x), describeAval(lov), describeAval(hiv))
		}
		lo, hi := int64(0), int64(-1)
		if t.Low != nil {
			v, ok := e.val(fr, t.Low).(aint)
			if !ok {
				return false
			}
			lo = int64(v)
		}
		if t.High != nil {
			v, ok := e.val(fr, t.High).(aint)
			if !ok {
				return false
			}
			hi = int64(v)
			if hi < 0 {
				// an explicit negative bound (a wrapped-around sum, say) — not "no bound"
				e.abort("slice bounds out of range: high bound %d", hi)
			}
		}
		switch s := x.(type) {
		case astr, astrv:
			if v, ok := strSlice(s, lo, hi); ok {
				fr.regs[t] = v
				return true
			}
			e.abort("string slice at a position the abstraction cannot place (%s[%d:%d])", describeAval(x), lo, hi)
		case avals:
			if hi < 0 {
				hi = int64(len(s.cells))
			}
			if lo < 0 || hi > int64(len(s.cells)) || lo > hi {
				e.abort("slice bounds out of range in the abstract slice")
			}
			{
				var spare []*aobj
				if t.Max == nil {
					spare = append(append(spare, s.cells[hi:]...), s.spare...)
				} else if mx, ok := e.val(fr, t.Max).(aint); ok && int64(mx) >= hi && int64(mx) <= int64(len(s.cells)) {
					spare = append(spare, s.cells[hi:mx]...)
				}
				fr.regs[t] = avals{cells: s.cells[lo:hi], spare: spare}
			}
			return true
		case aptr:
			// slicing an array (a composite literal): the elements become cells
			if at, ok := underlying(leafTypeOr(s.obj.typ, s.path)).(*types.Array); ok {
				var vs []aval
				n := at.Len()
				if hi < 0 {
					hi = n
				}
				for i := lo; i < hi; i++ {
					vs = append(vs, e.load(s.obj, joinPath(s.path, fmt.Sprintf("#%d", i))))
				}
				fr.regs[t] = newVals(vs, at.Elem())
				return true
			}
		case anil:
			fr.regs[t] = anil{}
			return true
		}
		return false
	case *ssa.Range:
		if m, ok := e.val(fr, t.X).(amap); ok {
			var keys []string
			for k := range m.m.vals {
				keys = append(keys, k)
			}
			sort.Strings(keys)
			if e.mapRev {
				// the other walk: what must not depend on map order is evaluated under both
				for i, j := 0, len(keys)-1; i < j; i, j = i+1, j-1 {
					keys[i], keys[j] = keys[j], keys[i]
				}
			}
			fr.regs[t] = &amapIter{m: m, keys: keys}
			return true
		}
		return false
	case *ssa.Next:
		if it, ok := e.val(fr, t.Iter).(*amapIter); ok {
			if it.i >= len(it.keys) {
				fr.regs[t] = atuple{abool(false), zeroOf(it.m.m.typ.Key()), zeroOf(it.m.m.typ.Elem())}
				return true
			}
			k := it.keys[it.i]
			it.i++
			fr.regs[t] = atuple{abool(true), it.m.m.keys[k], it.m.m.vals[k]}
			return true
		}
		return false
	case *ssa.MakeSlice:
		n, ok := e.val(fr, t.Len).(aint)
		if !ok {
			return false
		}
		elem := underlying(t.Type()).(*types.Slice).Elem()
		var vs []aval
		for i := int64(0); i < int64(n); i++ {
			vs = append(vs, zeroOf(elem))
		}
		fr.regs[t] = newVals(vs, elem)
		return true
	}
	return false
}

func describeStrVal(v aval) (string, bool) {
	switch t := v.(type) {
	case astrv:
		return "\"" + renderAtoms(t.atoms) + "\"", true
	case avals:
		var p []string
		for _, c := range t.cells {
			p = append(p, describeAval(c.f[""]))
		}
		return "[" + strings.Join(p, " ") + "]", true
	case amap:
		return fmt.Sprintf("map(%d)", len(t.m.vals)), true
	}
	return "", false
}

// stdCall models a few standard-library helpers that take function values or operate on modelled containers.
func (e *absEnv) stdCall(fr *absFrame, name string, args []aval, depth int) (aval, bool) {
	base := name
	if i := strings.Index(base, "["); i >= 0 {
		base = base[:i] // generic instantiation
	}
	callF := func(f aval, a ...aval) aval {
		fv, ok := f.(afunc)
		if !ok {
			return aunk{"call of " + describeAval(f)}
		}
		if e.ext != nil {
			if v, ok := e.ext(fv.fn.String(), a); ok {
				return v
			}
		}
		if len(fv.fn.Blocks) == 0 {
			return aunk{"call of " + fv.fn.String()}
		}
		return e.call(fv.fn, a, fv.free, depth+1)
	}
	elems := func(v aval) ([]aval, bool) {
		switch t := v.(type) {
		case avals:
			var out []aval
			for _, c := range t.cells {
				out = append(out, e.cellVal(c))
			}
			return out, true
		case aslice:
			var out []aval
			for _, o := range t.elems {
				out = append(out, aptr{o, ""})
			}
			return out, true
		case anil:
			return nil, true
		}
		return nil, false
	}
	switch base {
	case "sort.Sort", "sort.Stable":
		// an insertion sort driven by the value's own Len / Less / Swap (the order produced by any correct sort is the
		// same up to ties; ties keep their relative order here)
		ifc, ok := args[0].(aiface)
		if !ok || fr == nil {
			return nil, false
		}
		method := func(name string, margs ...aval) (aval, bool) {
			if e.ext != nil {
				if v, ok := e.ext("invoke:"+name, append([]aval{ifc}, margs...)); ok {
					return v, true
				}
			}
			sel := types.NewMethodSet(ifc.typ).Lookup(nil, name)
			if sel == nil {
				return nil, false
			}
			m := fr.fn.Prog.MethodValue(sel)
			if m == nil || len(m.Blocks) == 0 {
				return nil, false
			}
			return e.call(m, append([]aval{ifc.val}, margs...), nil, depth+1), true
		}
		lv, ok := method("Len")
		n, isInt := lv.(aint)
		if !ok || !isInt {
			return nil, false
		}
		for i := int64(1); i < int64(n); i++ {
			for j := i; j > 0; j-- {
				lt, ok := method("Less", aint(j), aint(j-1))
				b, isB := lt.(abool)
				if !ok || !isB {
					e.abort("sort: Less(%d,%d) is %s", j, j-1, describeAval(lt))
				}
				if !bool(b) {
					break
				}
				if _, ok := method("Swap", aint(j), aint(j-1)); !ok {
					return nil, false
				}
			}
		}
		return atuple{}, true
	case "fmt.Sprintf", "fmt.Sprint":
		// concrete operands only: the library's own formatting
		var goArgs []interface{}
		format := ""
		rest := args
		if base == "fmt.Sprintf" {
			f, ok := args[0].(astr)
			if !ok {
				return nil, false
			}
			format = string(f)
			rest = args[1:]
		}
		if len(rest) == 1 {
			switch vs := rest[0].(type) {
			case anil:
			case avals:
				for _, c := range vs.cells {
					switch v := ifaceVal(e.cellVal(c)).(type) {
					case astr:
						goArgs = append(goArgs, string(v))
					case aint:
						goArgs = append(goArgs, int64(v))
					case abool:
						goArgs = append(goArgs, bool(v))
					default:
						return nil, false
					}
				}
			default:
				return nil, false
			}
		}
		if base == "fmt.Sprintf" {
			return astr(fmt.Sprintf(format, goArgs...)), true
		}
		return astr(fmt.Sprint(goArgs...)), true
	case "fmt.Errorf", "errors.New":
		// a freshly made error: some non-nil error value
		return aiface{aptr{&aobj{name: "error made by " + base, typ: types.Typ[types.Int], f: map[string]aval{}}, ""}, types.Typ[types.Int]}, true
	case "slices.Clone":
		es, ok := elems(args[0])
		if !ok {
			return nil, false
		}
		if es == nil {
			return anil{}, true
		}
		var et types.Type = types.Typ[types.Int]
		switch t := args[0].(type) {
		case avals:
			if len(t.cells) > 0 {
				et = t.cells[0].typ
			}
		case aslice:
			sl := make([]*aobj, len(t.elems))
			copy(sl, t.elems)
			return aslice{sl}, true
		}
		return newVals(es, et), true
	case "time.Now":
		// wall-clock readings are outside the abstraction: an opaque instant, and every elapsed time taken from it is
		// zero (bookkeeping of durations must not change what a table decides; a branch on one is evaluated for 0)
		return astruct{map[string]aval{}}, true
	case "time.Since", "time.Until", "(time.Time).Sub":
		return aint(0), true
	case "cmp.Less":
		// (for the ordered values of the abstraction — no NaN among them — cmp.Less is <)
		if len(args) == 2 {
			return e.binop(token.LSS, args[0], args[1]), true
		}
	case "cmp.Compare":
		if len(args) == 2 {
			if lt, ok := e.binop(token.LSS, args[0], args[1]).(abool); ok {
				if gt, ok := e.binop(token.GTR, args[0], args[1]).(abool); ok {
					switch {
					case bool(lt):
						return aint(-1), true
					case bool(gt):
						return aint(1), true
					}
					return aint(0), true
				}
			}
		}
	case "slices.IndexFunc", "slices.ContainsFunc":
		es, ok := elems(args[0])
		if !ok {
			return nil, false
		}
		for i, x := range es {
			if e.truth(callF(args[1], x), base+" predicate") {
				if base == "slices.ContainsFunc" {
					return abool(true), true
				}
				return aint(i), true
			}
		}
		if base == "slices.ContainsFunc" {
			return abool(false), true
		}
		return aint(-1), true
	case "slices.Index", "slices.Contains":
		es, ok := elems(args[0])
		if !ok {
			return nil, false
		}
		for i, x := range es {
			eq, isB := e.binop(token.EQL, x, args[1]).(abool)
			if !isB {
				return aunk{base + " over incomparable values"}, true
			}
			if eq {
				if base == "slices.Contains" {
					return abool(true), true
				}
				return aint(i), true
			}
		}
		if base == "slices.Contains" {
			return abool(false), true
		}
		return aint(-1), true
	case "cmp.Or":
		es, ok := elems(args[0])
		if !ok {
			return nil, false
		}
		for _, x := range es {
			switch v := x.(type) {
			case aint:
				if v != 0 {
					return x, true
				}
			case astr:
				if v != "" {
					return x, true
				}
			case asym, astrv, aptr:
				return x, true
			case anil:
			default:
				return aunk{"cmp.Or over " + describeAval(x)}, true
			}
		}
		if len(es) > 0 {
			return es[len(es)-1], true
		}
		return nil, false
	case "(net/http.Header).Get", "(net/http.Header).Values", "(net/http.Header).Set", "(net/http.Header).Add", "(net/http.Header).Del":
		m, ok := args[0].(amap)
		if !ok {
			if _, isNil := args[0].(anil); isNil && (strings.HasSuffix(base, "Get") || strings.HasSuffix(base, "Values") || strings.HasSuffix(base, "Del")) {
				if strings.HasSuffix(base, "Get") {
					return astr(""), true
				}
				return anil{}, true
			}
			return nil, false
		}
		// a concrete header name is canonicalised as net/http does; opaque names are taken as they are
		if cs, isC := args[1].(astr); isC {
			args = append([]aval{}, args...)
			args[1] = astr(textproto.CanonicalMIMEHeaderKey(string(cs)))
		}
		k, ok := keyOf(args[1])
		if !ok {
			return nil, false
		}
		cur, present := m.m.vals[k]
		if !present && m.m.open != nil && m.m.open(k) && (strings.HasSuffix(base, "Get") || strings.HasSuffix(base, "Values")) {
			return aunk{"header " + k + " of a request that may carry headers the case does not model"}, true
		}
		switch {
		case strings.HasSuffix(base, "Get"):
			if sl, ok := cur.(avals); ok && present && len(sl.cells) > 0 {
				return sl.cells[0].f[""], true
			}
			return astr(""), true
		case strings.HasSuffix(base, "Values"):
			if present {
				return cur, true
			}
			return anil{}, true
		case strings.HasSuffix(base, "Set"):
			m.m.vals[k] = newVals([]aval{args[2]}, types.Typ[types.String])
			m.m.keys[k] = args[1]
			return atuple{}, true
		case strings.HasSuffix(base, "Add"):
			var cells []*aobj
			if sl, ok := cur.(avals); ok && present {
				cells = append(cells, sl.cells...)
			}
			cells = append(cells, newVals([]aval{args[2]}, types.Typ[types.String]).cells...)
			m.m.vals[k] = avals{cells: cells}
			m.m.keys[k] = args[1]
			return atuple{}, true
		case strings.HasSuffix(base, "Del"):
			delete(m.m.vals, k)
			delete(m.m.keys, k)
			return atuple{}, true
		}
	case "strconv.Atoi":
		if a, ok := args[0].(astr); ok {
			if v, err := strconv.Atoi(string(a)); err == nil {
				return atuple{aint(int64(v)), anil{}}, true
			}
			return atuple{aint(0), aiface{aptr{&aobj{name: "strconv error", typ: types.Typ[types.Int], f: map[string]aval{}}, ""}, types.Typ[types.Int]}}, true
		}
	case "strconv.ParseFloat":
		if a, ok := args[0].(astr); ok && len(args) == 2 {
			if z, ok := args[1].(aint); ok {
				if v, err := strconv.ParseFloat(string(a), int(z)); err == nil {
					return atuple{afloat(v), anil{}}, true
				}
				return atuple{afloat(0), aiface{aptr{&aobj{name: "strconv error", typ: types.Typ[types.Int], f: map[string]aval{}}, ""}, types.Typ[types.Int]}}, true
			}
		}
	case "strconv.ParseInt":
		if a, ok := args[0].(astr); ok && len(args) == 3 {
			b, ok1 := args[1].(aint)
			z, ok2 := args[2].(aint)
			if ok1 && ok2 {
				if v, err := strconv.ParseInt(string(a), int(b), int(z)); err == nil {
					return atuple{aint(v), anil{}}, true
				}
				return atuple{aint(0), aiface{aptr{&aobj{name: "strconv error", typ: types.Typ[types.Int], f: map[string]aval{}}, ""}, types.Typ[types.Int]}}, true
			}
		}
	case "(encoding/binary.bigEndian).Uint16", "(encoding/binary.bigEndian).Uint32", "(encoding/binary.bigEndian).Uint64",
		"(encoding/binary.littleEndian).Uint16", "(encoding/binary.littleEndian).Uint32", "(encoding/binary.littleEndian).Uint64":
		n := map[string]int{"16": 2, "32": 4, "64": 8}[base[len(base)-2:]]
		if sl, ok := args[len(args)-1].(avals); ok && len(sl.cells) >= n && n > 0 {
			var v uint64
			for k := 0; k < n; k++ {
				b, ok := sl.cells[k].f[""].(aint)
				if !ok {
					return nil, false
				}
				if strings.Contains(base, "bigEndian") {
					v = v<<8 | uint64(uint8(b))
				} else {
					v |= uint64(uint8(b)) << (8 * uint(k))
				}
			}
			return aint(int64(v)), true
		}
	case "unicode.IsSpace", "unicode.IsDigit", "unicode.IsLetter", "unicode.IsUpper", "unicode.IsLower":
		if v, ok := args[0].(aint); ok {
			f := map[string]func(rune) bool{"unicode.IsSpace": unicode.IsSpace, "unicode.IsDigit": unicode.IsDigit, "unicode.IsLetter": unicode.IsLetter, "unicode.IsUpper": unicode.IsUpper, "unicode.IsLower": unicode.IsLower}[base]
			return abool(f(rune(v))), true
		}
	case "path/filepath.Clean", "path/filepath.Dir", "path/filepath.Base", "path/filepath.Ext", "path/filepath.IsAbs", "path/filepath.FromSlash":
		// evaluated for a slash-separated platform
		if v, ok := args[0].(astr); ok {
			switch base {
			case "path/filepath.Clean":
				return astr(path.Clean(string(v))), true
			case "path/filepath.Dir":
				return astr(path.Dir(string(v))), true
			case "path/filepath.Base":
				return astr(path.Base(string(v))), true
			case "path/filepath.Ext":
				return astr(path.Ext(string(v))), true
			case "path/filepath.IsAbs":
				return abool(path.IsAbs(string(v))), true
			case "path/filepath.FromSlash":
				return v, true
			}
		}
	case "path/filepath.Join", "path.Join":
		if sl, ok := args[0].(avals); ok {
			var parts []string
			for _, c := range sl.cells {
				p, ok := c.f[""].(astr)
				if !ok {
					return nil, false
				}
				parts = append(parts, string(p))
			}
			return astr(path.Join(parts...)), true
		}
		if _, isNil := args[0].(anil); isNil {
			return astr(""), true
		}
	case "net/textproto.CanonicalMIMEHeaderKey", "net/http.CanonicalHeaderKey":
		if v, ok := args[0].(astr); ok {
			return astr(textproto.CanonicalMIMEHeaderKey(string(v))), true
		}
	case "strconv.Itoa":
		if v, ok := args[0].(aint); ok {
			return astr(fmt.Sprintf("%d", int64(v))), true
		}
	}
	if strings.HasPrefix(base, "(*sync.Map).") {
		// a sync.Map is modelled as an ordinary map held by the object the receiver points to (single-threaded
		// evaluation: the abstraction decides what the code does to the registry, not how it is synchronised)
		p, ok := args[0].(aptr)
		if !ok {
			return nil, false
		}
		slot := joinPath(p.path, "·syncmap")
		m, have := p.obj.f[slot].(amap)
		if !have {
			m = amap{&amapData{vals: map[string]aval{}, keys: map[string]aval{}}}
			p.obj.f[slot] = m
		}
		unwrap := func(v aval) aval { return v }
		switch strings.TrimPrefix(base, "(*sync.Map).") {
		case "Store":
			k, ok := keyOf(ifaceVal(args[1]))
			if !ok {
				return nil, false
			}
			m.m.vals[k], m.m.keys[k] = args[2], args[1]
			return atuple{}, true
		case "Load":
			k, ok := keyOf(ifaceVal(args[1]))
			if !ok {
				return nil, false
			}
			if v, ok := m.m.vals[k]; ok {
				return atuple{unwrap(v), abool(true)}, true
			}
			return atuple{anil{}, abool(false)}, true
		case "LoadOrStore":
			k, ok := keyOf(ifaceVal(args[1]))
			if !ok {
				return nil, false
			}
			if v, ok := m.m.vals[k]; ok {
				return atuple{v, abool(true)}, true
			}
			m.m.vals[k], m.m.keys[k] = args[2], args[1]
			return atuple{args[2], abool(false)}, true
		case "Delete":
			k, ok := keyOf(ifaceVal(args[1]))
			if !ok {
				return nil, false
			}
			delete(m.m.vals, k)
			delete(m.m.keys, k)
			return atuple{}, true
		case "Range":
			f, ok := args[1].(afunc)
			if !ok {
				return nil, false
			}
			var ks []string
			for k := range m.m.vals {
				ks = append(ks, k)
			}
			sort.Strings(ks)
			for _, k := range ks {
				v, still := m.m.vals[k]
				if !still {
					continue
				}
				res := e.call(f.fn, []aval{m.m.keys[k], v}, f.free, depth+1)
				if b, ok := res.(abool); ok && !bool(b) {
					break
				}
			}
			return atuple{}, true
		}
		return nil, false
	}
	if strings.HasPrefix(base, "sync/atomic.") {
		p, ok := args[0].(aptr)
		if !ok {
			return nil, false
		}
		op := strings.TrimPrefix(base, "sync/atomic.")
		switch {
		case strings.HasPrefix(op, "Load"):
			return e.load(p.obj, p.path), true
		case strings.HasPrefix(op, "Store"):
			e.store(p.obj, p.path, args[1])
			return atuple{}, true
		case strings.HasPrefix(op, "Add"):
			nv := e.binop(token.ADD, e.load(p.obj, p.path), args[1])
			e.store(p.obj, p.path, nv)
			return nv, true
		case strings.HasPrefix(op, "Swap"):
			old := e.load(p.obj, p.path)
			e.store(p.obj, p.path, args[1])
			return old, true
		case strings.HasPrefix(op, "CompareAndSwap") && len(args) == 3:
			// single-threaded evaluation: the exchange happens exactly when the value is the expected one
			eq, ok := e.binop(token.EQL, e.load(p.obj, p.path), args[1]).(abool)
			if !ok {
				return nil, false
			}
			if eq {
				e.store(p.obj, p.path, args[2])
			}
			return eq, true
		}
	}
	// the typed atomics (atomic.Int64 and friends): the value lives in the receiver's field v
	if strings.HasPrefix(base, "(*sync/atomic.") {
		p, ok := args[0].(aptr)
		if !ok {
			return nil, false
		}
		slot := joinPath(p.path, "v")
		op := base[strings.LastIndex(base, ".")+1:]
		cur := func() aval {
			if v, have := p.obj.f[slot]; have {
				return v
			}
			if strings.Contains(base, "atomic.Bool") {
				return abool(false)
			}
			if strings.Contains(base, "atomic.Value") || strings.Contains(base, "atomic.Pointer") {
				return anil{}
			}
			return aint(0)
		}
		switch op {
		case "Load":
			return cur(), true
		case "Store":
			p.obj.f[slot] = args[1]
			return atuple{}, true
		case "Add":
			nv := e.binop(token.ADD, cur(), args[1])
			p.obj.f[slot] = nv
			return nv, true
		case "Swap":
			old := cur()
			p.obj.f[slot] = args[1]
			return old, true
		case "CompareAndSwap":
			eq, ok := e.binop(token.EQL, cur(), args[1]).(abool)
			if !ok {
				return nil, false
			}
			if eq {
				p.obj.f[slot] = args[2]
			}
			return eq, true
		}
	}
	return nil, false
}

// cellVal: the value held by a slice cell (struct elements are stored field-wise and read back as a snapshot).
func (e *absEnv) cellVal(c *aobj) aval {
	if v, ok := c.f[""]; ok {
		return v
	}
	return e.load(c, "")
}

// strIndexAt: s[pos] for a position given as aint, apos or aend.
func strIndexAt(s aval, pos aval) (aval, bool) {
	atoms, ok := toAtoms(s)
	if !ok {
		return nil, false
	}
	if p, isEnd := pos.(aend); isEnd && p.back == 1 && p.key == renderAtoms(atoms) && len(atoms) > 0 {
		if last := atoms[len(atoms)-1]; last.sym != "" && !last.byte1 {
			// the last byte of a label: some byte that is no separator
			return astrv{[]atom{{sym: last.sym + "[-1]", byte1: true, lower: last.lower}}}, true
		}
	}
	ai, off, ok := cutAt(atoms, pos)
	if !ok || ai >= len(atoms) {
		return nil, false
	}
	a := atoms[ai]
	if a.sym != "" {
		if off != 0 {
			return nil, false
		}
		if a.byte1 {
			return astrv{[]atom{a}}, true
		}
		// the first byte of a label: some byte that is no separator
		return astrv{[]atom{{sym: a.sym + "[0]", byte1: true, lower: a.lower}}}, true
	}
	return aint(a.lit[off]), true
}

// ifaceVal: the dynamic value of an interface value (map keys of type interface{} are compared by it).
func ifaceVal(v aval) aval {
	if i, ok := v.(aiface); ok {
		return i.val
	}
	return v
}

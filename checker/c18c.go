package main

import (
	"fmt"
	"go/types"
	"strings"
)

// c18FilterWriterTable: the compress-or-not decision of the gzip filter writer, along call sequences (E10).  The
// writer is driven through WriteHeader / Write sequences with two response filters whose answers are scripted; the
// gzip writer's own WriteHeader and Write, and the wrapped writer's, are oracles that record where things went.
// Specification: every filter consulted for the decision is consulted before the first header is committed; the
// header is committed through the gzip writer (which announces Content-Encoding: gzip) exactly when all filters
// agreed; everything that follows — a second WriteHeader, the body — takes the route the first header announced,
// whatever the filters would say later (they will: the first commit itself put Content-Encoding: gzip into the
// header map, which is what SkipCompressedFilter looks for).
func c18FilterWriterTable(h H) (bad string, n int) {
	wh := h.p.Func(gzPkg, "(*ResponseFilterWriter).WriteHeader")
	wr := h.p.Func(gzPkg, "(*ResponseFilterWriter).Write")
	if wh == nil || wr == nil {
		return "gzip.(*ResponseFilterWriter).WriteHeader / Write not found", 0
	}
	rfT := wh.Params[0].Type().(*types.Pointer).Elem()
	var gzT types.Type = types.Typ[types.Int]
	var filtersT types.Type
	if st, ok := underlying(rfT).(*types.Struct); ok {
		for i := 0; i < st.NumFields(); i++ {
			if p, ok := st.Field(i).Type().(*types.Pointer); ok && strings.HasSuffix(p.Elem().String(), "gzipResponseWriter") {
				gzT = p.Elem()
			}
			if st.Field(i).Name() == "filters" {
				if sl, ok := underlying(st.Field(i).Type()).(*types.Slice); ok {
					filtersT = sl.Elem()
				}
			}
		}
	}
	if filtersT == nil {
		return "ResponseFilterWriter: no filters field", 0
	}
	gzWT := h.p.typeByName("compress/gzip", "Writer")
	type cs struct {
		name    string
		answers [][2]bool // per decision round: what the two filters answer
		calls   string    // H = WriteHeader(200), E = WriteHeader(103), W = Write, F = Flush
	}
	cases := []cs{
		{"both filters agree, explicit header", [][2]bool{{true, true}}, "HW"},
		{"both filters agree, implicit header", [][2]bool{{true, true}}, "W"},
		{"the second filter declines", [][2]bool{{true, false}}, "HW"},
		{"the first filter declines", [][2]bool{{false, true}}, "W"},
		{"two writes", [][2]bool{{true, true}}, "HWW"},
		{"header written twice; the filters decline the second time (they see the Content-Encoding the first commit set)", [][2]bool{{true, true}, {false, true}}, "HHW"},
		{"early hints, then the final header; the filters decline the second time", [][2]bool{{true, true}, {false, true}}, "EHW"},
		{"header written twice, declined at first, agreed later", [][2]bool{{true, false}, {true, true}}, "HHW"},
		{"a header written again after body bytes went out", [][2]bool{{true, true}, {false, true}}, "HWHW"},
		{"flush before the first write (event stream)", [][2]bool{{true, true}}, "FWF"},
		{"flush before the first write, a filter declines", [][2]bool{{true, false}}, "FW"},
		{"flush between writes", [][2]bool{{true, true}}, "HWFW"},
	}
	for _, c := range cases {
		n++
		var events []string
		round, asked := 0, 0
		filters := []aval{}
		fobjs := []*aobj{}
		for k := 0; k < 2; k++ {
			o := &aobj{name: fmt.Sprintf("filter%d", k), typ: types.Typ[types.Int], f: map[string]aval{}}
			fobjs = append(fobjs, o)
			filters = append(filters, aiface{aptr{o, ""}, types.Typ[types.Int]})
		}
		raw := &aobj{name: "wrapped writer", typ: types.Typ[types.Int], f: map[string]aval{}}
		gz := &aobj{name: "gzip writer", typ: gzT, f: map[string]aval{}}
		gz.in = func(o *aobj, path string, t types.Type) aval { return aunk{"gzip writer field " + path} }
		rf := &aobj{name: "filter writer", typ: rfT, f: map[string]aval{"shouldCompress": abool(false), "statusCodeWritten": abool(false), "gzipResponseWriter": aptr{gz, ""}, "filters": newVals(filters, filtersT), "ResponseWriter": aiface{aptr{raw, ""}, types.Typ[types.Int]}}}
		rf.in = func(o *aobj, path string, t types.Type) aval { return aunk{"filter writer field " + path} }
		who := func(v aval) *aobj {
			if p, ok := ifaceVal(v).(aptr); ok {
				return p.obj
			}
			return nil
		}
		env := &absEnv{noFork: true, maxSteps: 100000, globals: map[string]*aobj{}}
		env.ext = func(callee string, args []aval) (aval, bool) {
			switch {
			case callee == "invoke:ShouldCompress":
				k := 0
				if who(args[0]) == fobjs[1] {
					k = 1
				}
				if k == 0 || asked == 0 {
					// a new decision round begins with the first filter
				}
				rr := round
				if rr >= len(c.answers) {
					rr = len(c.answers) - 1
				}
				asked++
				events = append(events, fmt.Sprintf("ask%d", k))
				return abool(c.answers[rr][k]), true
			case strings.HasSuffix(callee, "gzipResponseWriter).WriteHeader"):
				if code, ok := args[len(args)-1].(aint); ok && code >= 100 && code <= 199 && code != 101 {
					events = append(events, "gzip-info-header")
					return atuple{}, true
				}
				events = append(events, "gzip-header")
				round++
				return atuple{}, true
			case strings.HasSuffix(callee, "gzipResponseWriter).Write"):
				events = append(events, "gzip-body")
				return atuple{aint(3), anil{}}, true
			case strings.HasSuffix(callee, "gzipResponseWriter).Writer"):
				if gzWT != nil {
					return aiface{aptr{&aobj{name: "compressor", typ: gzWT, f: map[string]aval{}}, ""}, types.NewPointer(gzWT)}, true
				}
				return aiface{aptr{&aobj{name: "discard", typ: types.Typ[types.Int], f: map[string]aval{}}, ""}, types.Typ[types.Int]}, true
			case callee == "invoke:WriteHeader" && who(args[0]) == gz:
				if code, ok := args[len(args)-1].(aint); ok && code >= 100 && code <= 199 && code != 101 {
					events = append(events, "gzip-info-header")
					return atuple{}, true
				}
				events = append(events, "gzip-header")
				round++
				return atuple{}, true
			case callee == "invoke:WriteHeader":
				if code, ok := args[len(args)-1].(aint); ok && code >= 100 && code <= 199 && code != 101 {
					// an informational response commits nothing
					events = append(events, "info-header")
					return atuple{}, true
				}
				events = append(events, "plain-header")
				round++
				return atuple{}, true
			case callee == "invoke:Write":
				if who(args[0]) == gz {
					// the gzip writer reached through an interface (an io.Writer chosen by a helper)
					events = append(events, "gzip-body")
					return atuple{aint(3), anil{}}, true
				}
				events = append(events, "plain-body")
				return atuple{aint(3), anil{}}, true
			case strings.HasSuffix(callee, "gzip.Writer).Reset"):
				events = append(events, "attach")
				return atuple{}, true
			case strings.HasSuffix(callee, "gzip.Writer).Flush"):
				return atuple{}, true
			case strings.HasSuffix(callee, "ResponseWriterWrapper).Flush"), strings.HasSuffix(callee, "gzipResponseWriter).Flush"), callee == "invoke:Flush":
				// flushing the connection: net/http commits the header as it stands if none was written yet
				committed := false
				for _, e := range events {
					if strings.HasSuffix(e, "-header") {
						committed = true
					}
				}
				if !committed {
					events = append(events, "plain-header")
					round++
				}
				events = append(events, "flush")
				return atuple{}, true
			}
			return nil, false
		}
		desc := c.name + " (calls " + c.calls + ")"
		und := ""
		for _, call := range c.calls {
			switch call {
			case 'H':
				_, und = env.run(wh, []aval{aptr{rf, ""}, aint(200)})
			case 'E':
				_, und = env.run(wh, []aval{aptr{rf, ""}, aint(103)})
			case 'W':
				_, und = env.run(wr, []aval{aptr{rf, ""}, newVals([]aval{aint(1), aint(2), aint(3)}, types.Typ[types.Uint8])})
			case 'F':
				if _, ok := env.callMethod(h.p.SSA, aiface{aptr{rf, ""}, types.NewPointer(rfT)}, "Flush"); !ok {
					und = "the filter writer's Flush could not be evaluated"
				}
			}
			if und != "" {
				break
			}
		}
		if und != "" {
			return desc + ": undecided — " + und, n
		}
		// the route the first header announced
		route, first := "", -1
		for i, e := range events {
			if strings.HasSuffix(e, "-header") && !strings.HasSuffix(e, "info-header") {
				route, first = strings.TrimSuffix(e, "-header"), i
				break
			}
		}
		want := "plain"
		if c.answers[0][0] && c.answers[0][1] {
			want = "gzip"
		}
		seq := strings.Join(events, " ")
		switch {
		case first < 0:
			return desc + ": no header is committed (" + seq + ")", n
		case route != want:
			return fmt.Sprintf("%s: the filters answer %v, the first header is committed through the %s writer (%s)", desc, c.answers[0], route, seq), n
		}
		asksBefore := 0
		for _, e := range events[:first] {
			if strings.HasPrefix(e, "ask") {
				asksBefore++
			}
		}
		if asksBefore == 0 || (want == "gzip" && asksBefore < 2) {
			return fmt.Sprintf("%s: %d filters were consulted before the header was committed (%s)", desc, asksBefore, seq), n
		}
		bodies := 0
		for _, e := range events[first+1:] {
			if strings.HasPrefix(e, "ask") || e == "flush" || strings.HasSuffix(e, "info-header") {
				continue
			}
			if e == "attach" {
				return fmt.Sprintf("%s: the compressor is attached to the connection again after the header was committed — a stream that has begun is cut and started over (%s)", desc, seq), n
			}
			if !strings.HasPrefix(e, route+"-") {
				return fmt.Sprintf("%s: the first header went through the %s writer (the client was told %s), but later %s — the body does not match what Content-Encoding says (%s)", desc, route, map[string]string{"gzip": "Content-Encoding: gzip", "plain": "no Content-Encoding"}[route], e, seq), n
			}
			if strings.HasSuffix(e, "-body") {
				bodies++
			}
		}
		if bodies != strings.Count(c.calls, "W") {
			return fmt.Sprintf("%s: %d body writes reach a writer for %d Write calls (%s)", desc, bodies, strings.Count(c.calls, "W"), seq), n
		}
	}
	return "", n
}

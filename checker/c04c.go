package main

import (
	"fmt"
	"go/types"
	"sort"
	"strings"
)

// c04Req: createUpstreamRequest as a decision table (E10).  The incoming request carries an end-to-end header, the
// hop-by-hop header Upgrade, a header X-Foo, optionally a Connection header naming X-Foo, optionally prior
// X-Forwarded-For values; the client address is "ip:port" or something SplitHostPort rejects; the body is empty or
// not.  http.Request.WithContext is modelled as the shallow copy it is (the header map is shared with the client's
// request), so a write to the copy's header that is not preceded by a fresh map shows up as a change of the
// client's own header.
func c04Req(h H, rule string) (copyOnWrite, hop, xff, other string, ncases int) {
	fn := h.p.Func(pxPkg, "createUpstreamRequest")
	if fn == nil {
		other = "createUpstreamRequest not found"
		return
	}
	hop0, _ := h.p.stringTable(pxPkg, "hopHeaders")
	reqT := fn.Params[1].Type().(*types.Pointer).Elem()
	hdrT, _ := types.Unalias(h.p.typeByName("net/http", "Header")).Underlying().(*types.Map)
	strT := types.Typ[types.String]
	type cs struct {
		conn    string // "", "close", "X-Foo", "X-Foo, keep-alive"
		prior   int    // number of prior X-Forwarded-For values
		badAddr bool
		noBody  bool
	}
	var cases []cs
	// "a|b": two Connection header lines
	for _, conn := range []string{"", "close", "X-Foo", "X-Foo, keep-alive", "keep-alive|X-Foo"} {
		for prior := 0; prior <= 2; prior++ {
			for _, badAddr := range []bool{false, true} {
				for _, noBody := range []bool{false, true} {
					cases = append(cases, cs{conn, prior, badAddr, noBody})
				}
			}
		}
	}
	snapshot := func(m amap) string {
		var ks []string
		for k, v := range m.m.vals {
			ks = append(ks, k+"="+describeAval(v))
		}
		sort.Strings(ks)
		return strings.Join(ks, ";")
	}
	vals := func(m amap, name string) []string {
		sl, ok := m.m.vals["s:"+name].(avals)
		if !ok {
			return nil
		}
		var out []string
		for _, c := range sl.cells {
			out = append(out, describeAval(c.f[""]))
		}
		return out
	}
	for _, c := range cases {
		c := c
		ncases++
		desc := fmt.Sprintf("Connection=%q, %d prior X-Forwarded-For value(s), client address parsable=%v, empty body=%v", c.conn, c.prior, !c.badAddr, c.noBody)
		var clientHdr amap
		var req *aobj
		var before string
		env := &absEnv{globals: map[string]*aobj{}, maxSteps: 200000}
		env.ext = func(callee string, args []aval) (aval, bool) {
			switch callee {
			case "context.WithCancel":
				return atuple{aiface{aptr{&aobj{name: "ctx", typ: types.Typ[types.Int], f: map[string]aval{}}, ""}, types.Typ[types.Int]}, aunk{"cancel func"}}, true
			case "(*net/http.Request).Context":
				return aiface{aptr{&aobj{name: "ctx0", typ: types.Typ[types.Int], f: map[string]aval{}}, ""}, types.Typ[types.Int]}, true
			case "(*net/http.Request).WithContext":
				p, ok := args[0].(aptr)
				if !ok {
					return nil, false
				}
				cp := &aobj{name: "outreq", typ: p.obj.typ, f: map[string]aval{}, in: p.obj.in}
				for k, v := range p.obj.f {
					cp.f[k] = v // a shallow copy: maps are shared
				}
				// materialise the fields the code may read through the copy
				for _, k := range []string{"Header", "Body", "ContentLength", "RemoteAddr"} {
					cp.f[k] = env.load(p.obj, k)
				}
				return aptr{cp, ""}, true
			}
			return nil, false
		}
		mk := func() []aval {
			known := map[string]bool{"s:Accept": true, "s:X-Foo": true, "s:X-Forwarded-For": true, "s:Connection": true, "s:Keep-Alive": true}
			for _, hn := range hop0 {
				known["s:"+hn] = true
			}
			env.newMapOpen = func(k string) bool { return !known[k] }
			clientHdr = amap{&amapData{vals: map[string]aval{}, keys: map[string]aval{}, typ: hdrT, open: env.newMapOpen}}
			set := func(k string, vs ...aval) {
				clientHdr.m.vals["s:"+k] = newVals(vs, strT)
				clientHdr.m.keys["s:"+k] = astr(k)
			}
			set("Accept", astr("a"))
			set("Upgrade", astr("websocket"))
			set("X-Foo", astr("foo"))
			// a hop-by-hop field whose first line is empty is still a field the client sent
			set("Proxy-Authorization", astr(""), astr("Basic c2VjcmV0"))
			if c.conn != "" {
				var lines []aval
				for _, l := range strings.Split(c.conn, "|") {
					lines = append(lines, astr(l))
				}
				set("Connection", lines...)
			}
			var pr []aval
			for i := 0; i < c.prior; i++ {
				pr = append(pr, astr(fmt.Sprintf("p%d", i+1)))
			}
			if len(pr) > 0 {
				set("X-Forwarded-For", pr...)
			}
			before = snapshot(clientHdr)
			body := aval(aiface{aptr{&aobj{name: "body", typ: types.Typ[types.Int], f: map[string]aval{}}, ""}, types.Typ[types.Int]})
			remote := mkStr([]atom{{sym: "ip"}, {lit: ":4321"}})
			if c.badAddr {
				remote = mkStr([]atom{{sym: "pipe"}})
			}
			cl := aval(asym{"len"})
			if c.noBody {
				cl = aint(0)
			}
			req = &aobj{name: "request", typ: reqT, f: map[string]aval{"Header": clientHdr, "Body": body, "RemoteAddr": remote, "ContentLength": cl}}
			req.in = func(o *aobj, path string, t types.Type) aval { return aunk{"request field " + path} }
			return []aval{aiface{aptr{&aobj{name: "writer", typ: types.Typ[types.Int], f: map[string]aval{}}, ""}, types.Typ[types.Int]}, aptr{req, ""}}
		}
		env.cmp = func(a, b aval) (int, bool) {
			if s, ok := a.(asym); ok && s.name == "len" {
				if z, ok := b.(aint); ok && z == 0 {
					return 1, true
				}
			}
			if s, ok := b.(asym); ok && s.name == "len" {
				if z, ok := a.(aint); ok && z == 0 {
					return -1, true
				}
			}
			return 0, false
		}
		env.runForks(fn, mk, func(res aval, und string, _ int) bool {
			if und != "" {
				if other == "" {
					other = desc + ": undecided — " + und
				}
				return false
			}
			tp, ok := res.(atuple)
			var out *aobj
			if ok && len(tp) == 2 {
				if p, ok := tp[0].(aptr); ok {
					out = p.obj
				}
			}
			if out == nil {
				if other == "" {
					other = desc + ": unexpected result " + describeAval(res)
				}
				return false
			}
			// (a) the client's header is untouched
			if after := snapshot(clientHdr); after != before && copyOnWrite == "" {
				copyOnWrite = desc + ": the client's own header map was modified (" + before + " -> " + after + ")"
			}
			oh, ok := env.load(out, "Header").(amap)
			if !ok {
				if other == "" {
					other = desc + ": outgoing header is " + describeAval(env.load(out, "Header"))
				}
				return false
			}
			// (b) hop-by-hop removal, end-to-end intact
			for _, hname := range hop0 {
				if _, present := oh.m.vals["s:"+hname]; present && hop == "" {
					hop = desc + ": hop-by-hop header " + hname + " is forwarded"
				}
			}
			named := strings.Contains(c.conn, "X-Foo")
			if _, present := oh.m.vals["s:X-Foo"]; present == named && hop == "" {
				if named {
					hop = desc + ": X-Foo is named in Connection but forwarded"
				} else {
					hop = desc + ": the end-to-end header X-Foo is dropped"
				}
			}
			if got := vals(oh, "Accept"); (len(got) != 1 || got[0] != "\"a\"") && hop == "" {
				hop = desc + ": the end-to-end header Accept arrives as " + strings.Join(got, ",")
			}
			// (c) X-Forwarded-For
			got := vals(oh, "X-Forwarded-For")
			var want []string
			if c.badAddr {
				for i := 0; i < c.prior; i++ {
					want = append(want, fmt.Sprintf("\"p%d\"", i+1))
				}
			} else {
				v := ""
				for i := 0; i < c.prior; i++ {
					v += fmt.Sprintf("p%d, ", i+1)
				}
				want = []string{"\"" + v + "‹ip›\""}
			}
			if strings.Join(got, "|") != strings.Join(want, "|") && xff == "" {
				xff = desc + ": X-Forwarded-For is " + strings.Join(got, "|") + ", specification says " + strings.Join(want, "|")
			}
			// (d) body
			_, bodyNil := env.load(out, "Body").(anil)
			if bodyNil != c.noBody && other == "" {
				other = fmt.Sprintf("%s: outgoing body nil=%v", desc, bodyNil)
			}
			return true
		})
	}
	return
}

package main

import (
	"go/token"

	"golang.org/x/tools/go/ssa"
)

// flattenConcat lists the operands of a string concatenation a + b + c in order.
func flattenConcat(v ssa.Value) []ssa.Value {
	if b, ok := v.(*ssa.BinOp); ok && b.Op == token.ADD {
		return append(flattenConcat(b.X), flattenConcat(b.Y)...)
	}
	return []ssa.Value{v}
}

// c04R5: "the client address appended to X-Forwarded-For".
func c04R5(h H) {
	r := h.r
	r.Rule("R5", "the outgoing request as a decision table (E10): createUpstreamRequest, evaluated with http.Request.WithContext modelled as the shallow copy it is, for every combination of Connection header {absent, close, naming X-Foo, naming X-Foo and keep-alive, two lines of which the second names X-Foo}, 0-2 prior X-Forwarded-For values, parsable/unparsable client address and empty/non-empty body: the client's own header map is never modified; no header of the hop-by-hop table and none named in Connection is forwarded while end-to-end headers are; X-Forwarded-For is the prior values joined with \", \" followed by the client address (unchanged when the address cannot be split); the body is nil exactly for an empty body", 3)
	cow, hop, xff, other, n := c04Req(h, "R5")
	fn := h.p.Func(pxPkg, "createUpstreamRequest")
	pos := token.NoPos
	if fn != nil {
		pos = fn.Pos()
	}
	facts := []string{sprintf("%d cases evaluated", n)}
	r.Check(cow == "" && other == "", "R5", "proxy.createUpstreamRequest/client-header-untouched", pos, "the client's header map is shared with the shallow copy; every change goes to a fresh map", append(facts, cow, other)...)
	r.Check(hop == "" && other == "", "R5", "proxy.createUpstreamRequest/hop-by-hop-removed", pos, "hop-by-hop headers and those named in Connection are removed, end-to-end headers are intact", append(facts, hop, other)...)
	r.Check(xff == "" && other == "", "R5", "proxy.createUpstreamRequest/x-forwarded-for", pos, "the client address is appended to X-Forwarded-For", append(facts, xff, other)...)
}

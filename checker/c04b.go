package main

import (
	"go/token"
	"strings"

	"golang.org/x/tools/go/ssa"
)

// flattenConcat lists the operands of a string concatenation a + b + c in order.
func flattenConcat(v ssa.Value) []ssa.Value {
	if b, ok := v.(*ssa.BinOp); ok && b.Op == token.ADD {
		return append(flattenConcat(b.X), flattenConcat(b.Y)...)
	}
	return []ssa.Value{v}
}

// c04R5: "the client address appended to X-Forwarded-For".
func c04R5(h H) {
	r := h.r
	r.Rule("R5", "X-Forwarded-For: createUpstreamRequest sets X-Forwarded-For on the outgoing header under exactly 'the client address could be split from RemoteAddr'; the value is that address, preceded — exactly when the incoming request already carried the header — by all prior values joined with \", \" and one more \", \" (prior values first, in order, the client last)", 2)
	fn := h.fn("R5", pxPkg, "createUpstreamRequest")
	if fn == nil {
		return
	}
	isRemoteAddr := func(v ssa.Value) bool {
		u, ok := v.(*ssa.UnOp)
		return ok && readsField(u, "RemoteAddr")
	}
	isClientIP := func(v ssa.Value) bool {
		ex, ok := v.(*ssa.Extract)
		if !ok || ex.Index != 0 {
			return false
		}
		c, ok := ex.Tuple.(*ssa.Call)
		return ok && calleeName(&c.Call) == "net.SplitHostPort" && isRemoteAddr(c.Call.Args[0])
	}
	sets := findCalls(fn, func(in ssa.Instruction) bool {
		c := callOf(in)
		if c == nil || c.IsInvoke() || calleeName(c) != "(net/http.Header).Set" {
			return false
		}
		k, ok := constString(c.Args[1])
		return ok && k == "X-Forwarded-For"
	})
	if len(sets) == 0 {
		r.Check(false, "R5", "proxy.createUpstreamRequest/sets-xff", fn.Pos(), "the outgoing request gets an X-Forwarded-For header")
		return
	}
	for k, s := range sets {
		c := callOf(s)
		// guards: only the error test of the split (flags that merely select copy-on-write are not guards of the Set)
		var extra []string
		splitOK := false
		for _, g := range guardAtoms(fn, nil, s) {
			if g.If != nil {
				if lp := naturalLoop(g.If.Block()); len(lp) > 0 {
					idx := 1
					if g.True {
						idx = 0
					}
					if !lp[g.If.Block().Succs[idx]] {
						continue // an earlier loop ran to its end
					}
				}
			}
			if x, nilWhenTrue, ok := nilCmp(g.Cond); ok {
				if ex, isEx := x.(*ssa.Extract); isEx && ex.Index == 2 {
					if call, isC := ex.Tuple.(*ssa.Call); isC && calleeName(&call.Call) == "net.SplitHostPort" && g.Pos == nilWhenTrue {
						splitOK = true
						continue
					}
				}
			}
			extra = append(extra, describe(g.Cond))
		}
		r.Check(splitOK && len(extra) == 0, "R5", sprintf("proxy.createUpstreamRequest/xff-set-whenever-address-known#%d", k+1), s.Pos(),
			"the header is set whenever (and only when) RemoteAddr could be split into host and port — under no further condition", extra...)
		// value forms
		ok := true
		var facts []string
		leaves, direct := phiLeaves(c.Args[2])
		type lv struct {
			v  ssa.Value
			gs []guardInfo
		}
		var vals []lv
		for _, l := range leaves {
			vals = append(vals, lv{l.V, phiEdgeGuards(fn, l.Phi, l.K)})
		}
		for _, d := range direct {
			vals = append(vals, lv{d, nil})
		}
		sawPlain, sawPrior := false, false
		for _, x := range vals {
			facts = append(facts, describe(x.v))
			if isClientIP(x.v) {
				sawPlain = true
				continue
			}
			ops := flattenConcat(x.v)
			if len(ops) != 3 || !isClientIP(ops[2]) {
				ok = false
				continue
			}
			sep, isSep := constString(ops[1])
			j, isJoin := ops[0].(*ssa.Call)
			if !isSep || sep != ", " || !isJoin || calleeName(&j.Call) != "strings.Join" {
				ok = false
				continue
			}
			jsep, _ := constString(j.Call.Args[1])
			var look *ssa.Lookup
			derives(j.Call.Args[0], func(v ssa.Value) bool {
				if l, isL := v.(*ssa.Lookup); isL {
					if key, isK := constString(l.Index); isK && key == "X-Forwarded-For" && strings.HasSuffix(l.X.Type().String(), "net/http.Header") {
						look = l
					}
				}
				return false
			}, flowOpts{})
			if jsep != ", " || look == nil {
				ok = false
				continue
			}
			// only when the header was present
			okv := commaOkOf(look)
			present := false
			for _, g := range x.gs {
				if g.Cond == okv && g.Pos {
					present = true
				}
			}
			if okv != nil && !present {
				ok = false
			}
			sawPrior = true
		}
		r.Check(ok && sawPlain && sawPrior, "R5", sprintf("proxy.createUpstreamRequest/xff-value#%d", k+1), s.Pos(),
			"the value is the client address alone, or — when the request already had the header — the prior values joined with \", \" followed by \", \" and the client address", facts...)
	}
}

package main

import (
	"fmt"
	"go/types"
	"sort"
	"strings"
)

// startServersTable: where an instance's sockets come from, as a decision table (E10).  startServers is evaluated
// for two servers (their Listen / ListenPacket / Address, the old listeners' File(), net.FileListener and Close are
// oracles; goroutines are outside the abstraction and the function's return path does not depend on them) on a first
// start, on a reload whose socket table has an entry for the first server's address, on a reload whose table has an
// entry for another address only, and with the second server's Listen failing.
type startTableResult struct {
	inherit string // a reload does not reuse the old socket of the same address, or reuses one of another address
	listen  string // Listen is called although a socket was inherited / not called although none was
	cleanup string // a failed start leaves a socket open
	other   string
	n       int
}

func startServersTable(h H) (res startTableResult) {
	fn := h.p.Func("", "startServers")
	if fn == nil || len(fn.Params) != 3 {
		res.other = "casket.startServers(serverList, inst, restartFds) not found"
		return
	}
	srvIface, _ := underlying(h.p.typeByName(modPath, "GracefulServer")).(*types.Interface)
	var srvT types.Type
	for path, pk := range h.p.ByPath {
		if !isModPkg(path) || pk.Types == nil || srvIface == nil {
			continue
		}
		sc := pk.Types.Scope()
		for _, n := range sc.Names() {
			if tn, ok := sc.Lookup(n).(*types.TypeName); ok && !tn.IsAlias() {
				if _, isStruct := tn.Type().Underlying().(*types.Struct); isStruct && types.Implements(types.NewPointer(tn.Type()), srvIface) {
					if srvT == nil || tn.Type().String() < srvT.String() {
						srvT = types.NewPointer(tn.Type())
					}
				}
			}
		}
	}
	if srvT == nil {
		res.other = "no module type implementing casket.GracefulServer found"
		return
	}
	instT := fn.Params[1].Type().(*types.Pointer).Elem()
	fdsT, _ := underlying(fn.Params[2].Type()).(*types.Map)
	if fdsT == nil {
		res.other = "startServers: third parameter is not the socket table (a map)"
		return
	}
	elemT := underlying(fn.Params[0].Type()).(*types.Slice).Elem()
	type cs struct {
		desc     string
		table    string // "nil", "own0" (entry for server0's address), "other" (entry for another address only)
		fail1    bool   // server1's Listen fails
		inherit0 bool   // specification: server0 inherits
	}
	cases := []cs{
		{"first start", "nil", false, false},
		{"reload, socket table has server0's address", "own0", false, true},
		{"reload, socket table has only an entry for another address on the same port", "other", false, false},
		{"reload, socket table empty", "empty", false, false},
		{"first start, server1's Listen fails", "nil", true, false},
		{"reload, socket table has server0's address, server1's Listen fails", "own0", true, true},
	}
	for _, c := range cases {
		c := c
		res.n++
		mkObj := func(name string) *aobj { return &aobj{name: name, typ: types.Typ[types.Int], f: map[string]aval{}} }
		srv := []*aobj{{name: "server0", typ: srvT.(*types.Pointer).Elem(), f: map[string]aval{}}, {name: "server1", typ: srvT.(*types.Pointer).Elem(), f: map[string]aval{}}}
		for _, s := range srv {
			s.in = func(o *aobj, path string, t types.Type) aval { return aunk{"server field " + path} }
		}
		addr := map[*aobj]string{srv[0]: "127.0.0.1:8080", srv[1]: "127.0.0.1:8081"}
		oldLn := mkObj("old listener")
		oldFile := mkObj("dup of old listener")
		inherited := mkObj("listener rebuilt from the old descriptor")
		fresh := map[*aobj]*aobj{srv[0]: mkObj("fresh listener of server0"), srv[1]: mkObj("fresh listener of server1")}
		listenErr := aptr{mkObj("err:address in use"), ""}
		listens := map[*aobj]int{}
		fileCalls := 0
		closed := map[*aobj]bool{}
		who := func(v aval) *aobj {
			if i, ok := v.(aiface); ok {
				v = i.val
			}
			if p, ok := v.(aptr); ok {
				return p.obj
			}
			return nil
		}
		env := &absEnv{globals: map[string]*aobj{}, noFork: true, maxSteps: 400000}
		env.ext = func(callee string, args []aval) (aval, bool) {
			switch {
			case strings.HasSuffix(callee, "casket.IsUpgrade"):
				return abool(false), true
			case callee == "invoke:Address":
				return astr(addr[who(args[0])]), true
			case callee == "invoke:WrapListener":
				return args[1], true
			case callee == "invoke:Listen":
				s := who(args[0])
				listens[s]++
				if c.fail1 && s == srv[1] {
					return atuple{anil{}, listenErr}, true
				}
				return atuple{aiface{aptr{fresh[s], ""}, types.Typ[types.Int]}, anil{}}, true
			case callee == "invoke:ListenPacket":
				return atuple{anil{}, anil{}}, true
			case callee == "invoke:File":
				if who(args[0]) == oldLn {
					fileCalls++
					return atuple{aptr{oldFile, ""}, anil{}}, true
				}
			case callee == "net.FileListener":
				if who(args[0]) == oldFile {
					return atuple{aiface{aptr{inherited, ""}, types.Typ[types.Int]}, anil{}}, true
				}
			case callee == "(*os.File).Close":
				return anil{}, true
			case callee == "invoke:Close":
				if o := who(args[0]); o != nil {
					closed[o] = true
				}
				return anil{}, true
			case callee == "fmt.Errorf", callee == "errors.New":
				return aiface{aptr{mkObj("err:wrapped"), ""}, types.Typ[types.Int]}, true
			}
			return nil, false
		}
		var table aval = anil{}
		if c.table != "nil" {
			m := amap{&amapData{vals: map[string]aval{}, keys: map[string]aval{}, typ: fdsT}}
			key := ""
			switch c.table {
			case "own0":
				key = "127.0.0.1:8080"
			case "other":
				key = ":8080"
			}
			if key != "" {
				m.m.vals["s:"+key] = astruct{map[string]aval{"server": aiface{aptr{mkObj("old server"), ""}, srvT}, "listener": aiface{aptr{oldLn, ""}, types.Typ[types.Int]}, "packet": anil{}}}
				m.m.keys["s:"+key] = astr(key)
			}
			table = m
		}
		inst := &aobj{name: "instance", typ: instT, f: map[string]aval{"servers": anil{}}}
		inst.in = func(o *aobj, path string, t types.Type) aval { return aunk{"instance field " + path} }
		list := newVals([]aval{aiface{aptr{srv[0], ""}, srvT}, aiface{aptr{srv[1], ""}, srvT}}, elemT)
		r, und := env.run(fn, []aval{list, aptr{inst, ""}, table})
		if und != "" {
			if res.other == "" {
				res.other = c.desc + ": undecided — " + und
			}
			continue
		}
		_, retNil := r.(anil)
		if retNil == c.fail1 && res.other == "" {
			res.other = fmt.Sprintf("%s: startServers returns %s", c.desc, describeAval(r))
		}
		// inheritance
		if c.inherit0 {
			if fileCalls != 1 && res.inherit == "" {
				res.inherit = fmt.Sprintf("%s: the old listener's File() is called %d times; a reload rebuilds the listener of the same address from the old descriptor", c.desc, fileCalls)
			}
			if listens[srv[0]] != 0 && res.listen == "" {
				res.listen = fmt.Sprintf("%s: server0 calls Listen() although its socket was inherited (close and rebind drops connections)", c.desc)
			}
		} else {
			if fileCalls != 0 && res.inherit == "" {
				res.inherit = fmt.Sprintf("%s: a socket registered under another address (or none) is inherited", c.desc)
			}
			if listens[srv[0]] != 1 && res.listen == "" {
				res.listen = fmt.Sprintf("%s: server0 calls Listen() %d times, once expected", c.desc, listens[srv[0]])
			}
		}
		if listens[srv[1]] != 1 && res.listen == "" {
			res.listen = fmt.Sprintf("%s: server1 calls Listen() %d times, once expected", c.desc, listens[srv[1]])
		}
		first := fresh[srv[0]]
		if c.inherit0 {
			first = inherited
		}
		if c.fail1 {
			if !closed[first] && res.cleanup == "" {
				res.cleanup = fmt.Sprintf("%s: the start fails and %s stays open", c.desc, first.name)
			}
		} else {
			if (closed[first] || closed[fresh[srv[1]]]) && res.cleanup == "" {
				res.cleanup = fmt.Sprintf("%s: a listener of a successful start is closed", c.desc)
			}
			// the instance records the sockets it serves on
			got := 0
			if sl, ok := env.load(inst, "servers").(avals); ok {
				for i, cl := range sl.cells {
					l := who(env.load(cl, "listener"))
					want := fresh[srv[i%2]]
					if i == 0 {
						want = first
					}
					if l == want {
						got++
					}
				}
			}
			if got != 2 && res.other == "" {
				res.other = fmt.Sprintf("%s: the instance's server list does not hold the two servers with their sockets (%s)", c.desc, describeAval(env.load(inst, "servers")))
			}
		}
	}
	return
}

// hookBackupTable: "leaves the registered event hooks as they were" — cloneEventHooks / restoreEventHooks evaluated
// on the registry (a sync.Map, modelled as a map): whatever was registered before the reload, and whatever the
// rejected configuration added, after the restore the registry holds exactly what it held before.
func hookBackupTable(h H) {
	r := h.r
	clone := h.fn("R5", "", "cloneEventHooks")
	restore := h.fn("R5", "", "restoreEventHooks")
	if clone == nil || restore == nil {
		return
	}
	bad := ""
	n := 0
	for _, pre := range [][]string{nil, {"on-startup-1"}, {"on-startup-1", "on-shutdown-2"}} {
		for _, added := range [][]string{nil, {"on-startup-new"}} {
			n++
			reg := &aobj{name: "eventHooks registry", typ: types.Typ[types.Int], f: map[string]aval{}}
			m := amap{&amapData{vals: map[string]aval{}, keys: map[string]aval{}}}
			reg.f["·syncmap"] = m
			put := func(k string) {
				m.m.vals["s:"+k] = acb{"hook " + k}
				m.m.keys["s:"+k] = aiface{astr(k), types.Typ[types.String]}
			}
			for _, k := range pre {
				put(k)
			}
			env := &absEnv{noFork: true, maxSteps: 100000, globals: map[string]*aobj{"eventHooks": {name: "eventHooks", typ: types.Typ[types.Int], f: map[string]aval{"": aptr{reg, ""}}}}}
			backup, und := env.run(clone, nil)
			desc := fmt.Sprintf("registry %q, the rejected configuration registers %q", pre, added)
			if und != "" {
				bad = desc + ": cloneEventHooks undecided — " + und
				break
			}
			for _, k := range added {
				put(k)
			}
			if _, und := env.run(restore, []aval{backup}); und != "" {
				bad = desc + ": restoreEventHooks undecided — " + und
				break
			}
			cur, _ := reg.f["·syncmap"].(amap)
			var got []string
			for k := range cur.m.vals {
				got = append(got, strings.TrimPrefix(k, "s:"))
			}
			sort.Strings(got)
			want := append([]string{}, pre...)
			sort.Strings(want)
			if strings.Join(got, ",") != strings.Join(want, ",") {
				bad = fmt.Sprintf("%s: after the restore the registry holds %q", desc, got)
				break
			}
		}
		if bad != "" {
			break
		}
	}
	r.Check(bad == "", "R5", "casket.cloneEventHooks+restoreEventHooks/registry-as-it-was", restore.Pos(), "a failed reload leaves the registered event hooks exactly as they were", fmt.Sprintf("%d cases evaluated", n), bad)
}

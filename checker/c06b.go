package main

import (
	"fmt"
	"go/token"
	"go/types"
	"strings"

	"golang.org/x/tools/go/ssa"
)

// c06R5: the mixing check can only reject what it is shown.  MakeTLSConfig compares the configs it is handed; the
// server hands them over in makeTLSConfig.  Evaluated (E10) for every group of one to three sites — including sites
// that share a host name and differ by path only — the list given to caskettls.MakeTLSConfig must contain the TLS
// config of every site of the group, and makeTLSConfig must return what MakeTLSConfig returns.
func c06R5(h H) {
	r := h.r
	r.Rule("R5", "every site is shown to the mixing check: httpserver.makeTLSConfig, evaluated (E10) for every group of 1-3 sites whose host names are all different or partly equal, calls caskettls.MakeTLSConfig once with the TLS config of every site of the group and returns its result, error included", 1)
	fn := h.fn("R5", hs, "makeTLSConfig")
	if fn == nil {
		return
	}
	groupT, ok := fn.Params[0].Type().Underlying().(*types.Slice)
	if !ok {
		r.Unresolve("R5", "makeTLSConfig: parameter is not a slice of sites")
		return
	}
	siteT := groupT.Elem().(*types.Pointer).Elem()
	var tlsT types.Type
	tlsField := ""
	if st, ok := underlying(siteT).(*types.Struct); ok {
		for i := 0; i < st.NumFields(); i++ {
			if p, ok := st.Field(i).Type().(*types.Pointer); ok && strings.HasSuffix(p.Elem().String(), "caskettls.Config") {
				tlsT, tlsField = p.Elem(), st.Field(i).Name()
			}
		}
	}
	if tlsT == nil {
		r.Unresolve("R5", "SiteConfig: no field of type *caskettls.Config")
		return
	}
	bad, nrun := "", 0
	// host-name patterns: which sites share a name (restricted growth strings)
	var pats [][]int
	for n := 1; n <= tb(3, 4); n++ {
		var rec func(cur []int, max int)
		rec = func(cur []int, max int) {
			if len(cur) == n {
				pats = append(pats, append([]int{}, cur...))
				return
			}
			for v := 0; v <= max+1; v++ {
				m := max
				if v > max {
					m = v
				}
				rec(append(cur, v), m)
			}
		}
		rec([]int{0}, 0)
	}
	for _, pat := range pats {
		if bad != "" {
			break
		}
		pat := pat
		var cfgs, sites []*aobj
		var given []aval
		calls := 0
		retErr := aptr{&aobj{name: "err:mixing", typ: types.Typ[types.Int], f: map[string]aval{}}, ""}
		retCfg := aptr{&aobj{name: "tls.Config", typ: types.Typ[types.Int], f: map[string]aval{}}, ""}
		for _, failing := range []bool{false, true} {
			failing := failing
			env := &absEnv{globals: map[string]*aobj{}, maxSteps: 200000}
			env.ext = func(callee string, args []aval) (aval, bool) {
				if strings.HasSuffix(callee, "caskettls.MakeTLSConfig") {
					calls++
					given = nil
					switch a := args[0].(type) {
					case aslice:
						for _, o := range a.elems {
							given = append(given, aptr{o, ""})
						}
					case avals:
						for _, c := range a.cells {
							given = append(given, env.cellVal(c))
						}
					}
					if failing {
						return atuple{anil{}, retErr}, true
					}
					return atuple{retCfg, anil{}}, true
				}
				return nil, false
			}
			desc := fmt.Sprintf("sites with host names %v (equal numbers: same name)", pat)
			env.runForks(fn, func() []aval {
				cfgs, sites, given, calls = nil, nil, nil, 0
				for i, hn := range pat {
					name := mkStr([]atom{{sym: fmt.Sprintf("host%d", hn), lower: true}})
					c := &aobj{name: fmt.Sprintf("tls%d", i), typ: tlsT, f: map[string]aval{"Hostname": name}}
					c.in = func(o *aobj, path string, t types.Type) aval {
						if _, isSl := underlying(t).(*types.Slice); isSl {
							return anil{}
						}
						return aunk{"tls config field " + path}
					}
					cfgs = append(cfgs, c)
					s := &aobj{name: fmt.Sprintf("site%d", i), typ: siteT, f: map[string]aval{tlsField: aptr{c, ""}}}
					s.in = func(o *aobj, path string, t types.Type) aval { return aunk{"site field " + path} }
					sites = append(sites, s)
				}
				return []aval{aslice{sites}}
			}, func(res aval, und string, _ int) bool {
				nrun++
				if und != "" {
					bad = desc + ": undecided — " + und
					return false
				}
				if calls != 1 {
					bad = fmt.Sprintf("%s: caskettls.MakeTLSConfig is called %d times", desc, calls)
					return false
				}
				for i, c := range cfgs {
					found := false
					for _, g := range given {
						if p, ok := g.(aptr); ok && p.obj == c {
							found = true
						}
					}
					if !found {
						bad = fmt.Sprintf("%s: the TLS config of site %d is not among the configs handed to caskettls.MakeTLSConfig, so its compatibility with the others is never checked", desc, i)
						return false
					}
				}
				tp, ok := res.(atuple)
				if !ok || len(tp) != 2 {
					bad = desc + ": unexpected result " + describeAval(res)
					return false
				}
				_, errNil := tp[1].(anil)
				if errNil == failing {
					bad = fmt.Sprintf("%s: MakeTLSConfig failing=%v, makeTLSConfig returns error %s", desc, failing, describeAval(tp[1]))
					return false
				}
				return true
			})
			if bad != "" {
				break
			}
		}
	}
	r.Check(bad == "", "R5", "httpserver.makeTLSConfig/every-site-checked", fn.Pos(), "the TLS/plaintext and same-name compatibility checks see every site of the listener", fmt.Sprintf("%d evaluations", nrun), bad)
}

// c06R6: two sites that answer the same SNI name on one listener are compared before one replaces the other.  The
// catch-all has three spellings — the empty host, 0.0.0.0 and :: — and all of them are filed under one key; the
// compatibility check has to look the earlier config up under that same key, or a catch-all site with a client
// certificate policy is silently replaced by one without.  MakeTLSConfig is evaluated (E10; buildStandardTLSConfig
// and assertConfigsCompatible are oracles, the latter recording what it is shown) on every ordered pair of catch-all
// spellings, on a repeated host name and on two different ones.
func c06R6(h H) {
	r := h.r
	r.Rule("R6", "same-name sites are compared whatever the spelling, as a table (E10) of MakeTLSConfig over ordered pairs of host names {\"\", 0.0.0.0, ::, a.example, b.example}: assertConfigsCompatible is called with the two configs exactly when they answer the same SNI name — equal names, or two spellings of the catch-all — and its error is returned", 1)
	fn := h.fn("R6", "caskettls", "MakeTLSConfig")
	if fn == nil {
		return
	}
	sl, ok := underlying(fn.Params[0].Type()).(*types.Slice)
	if !ok {
		r.Unresolve("R6", "MakeTLSConfig: parameter is not a slice")
		return
	}
	cfgT := derefType(sl.Elem())
	names := []string{"", "0.0.0.0", "::", "a.example", "b.example"}
	catchAll := map[string]bool{"": true, "0.0.0.0": true, "::": true}
	bad, n := "", 0
	for _, h1 := range names {
		for _, h2 := range names {
			for _, refuse := range []bool{false, true} {
				mk := func(name, host string) *aobj {
					o := &aobj{name: name, typ: cfgT, f: map[string]aval{"Hostname": astr(host), "Enabled": abool(false)}}
					o.in = func(o *aobj, path string, t types.Type) aval { return aunk{"config field " + path} }
					return o
				}
				a, b := mk("first config", h1), mk("second config", h2)
				compared := 0
				wrong := ""
				env := &absEnv{globals: map[string]*aobj{}, noFork: true, maxSteps: 100000}
				env.ext = func(callee string, args []aval) (aval, bool) {
					switch {
					case strings.HasSuffix(callee, "Config).buildStandardTLSConfig"):
						return anil{}, true
					case strings.HasSuffix(callee, "caskettls.assertConfigsCompatible"):
						compared++
						p1, _ := args[0].(aptr)
						p2, _ := args[1].(aptr)
						if !((p1.obj == a && p2.obj == b) || (p1.obj == b && p2.obj == a)) {
							wrong = "compares " + describeAval(args[0]) + " with " + describeAval(args[1])
						}
						if refuse {
							return aiface{aptr{&aobj{name: "incompatible", typ: types.Typ[types.Int], f: map[string]aval{}}, ""}, types.Typ[types.Int]}, true
						}
						return anil{}, true
					case callee == "fmt.Errorf":
						return aiface{aptr{&aobj{name: "wrapped error", typ: types.Typ[types.Int], f: map[string]aval{}}, ""}, types.Typ[types.Int]}, true
					}
					return nil, false
				}
				res, und := env.run(fn, []aval{newVals([]aval{aptr{a, ""}, aptr{b, ""}}, sl.Elem())})
				n++
				desc := fmt.Sprintf("sites %q and %q on one listener", h1, h2)
				same := h1 == h2 || (catchAll[h1] && catchAll[h2])
				tp, okT := res.(atuple)
				switch {
				case und != "":
					bad = desc + ": undecided — " + und
				case !okT || len(tp) != 2:
					bad = desc + ": returns " + describeAval(res)
				case wrong != "":
					bad = desc + ": " + wrong
				case same && compared != 1:
					bad = fmt.Sprintf("%s: both answer the same SNI name and are compared %d times — the later one replaces the earlier without a check", desc, compared)
				case !same && compared != 0:
					bad = fmt.Sprintf("%s: different names, compared %d times", desc, compared)
				default:
					_, noErr := tp[1].(anil)
					if same && refuse && noErr {
						bad = desc + ": the configurations are incompatible and MakeTLSConfig reports no error"
					}
					if !(same && refuse) && !noErr {
						bad = desc + ": rejected: " + describeAval(tp[1])
					}
				}
				if bad != "" {
					break
				}
			}
			if bad != "" {
				break
			}
		}
		if bad != "" {
			break
		}
	}
	r.Check(bad == "", "R6", "caskettls.MakeTLSConfig/same-name-table", fn.Pos(), "sites answering one SNI name are checked against each other before one replaces the other", fmt.Sprintf("%d pairs evaluated", n), bad)
}

// c06R7: what one `tls` directive of a site sets, a later one that does not mention it leaves alone (a snippet with
// `tls { protocols tls1.3 }` imported before the site's own `tls cert key` is the usual case).  Every store to the
// handshake settings the property names — the protocol range, the cipher list, the client-certificate policy — made by
// setupTLS or by the unexported code it is split into happens only while the subdirective that configures the setting
// is being handled: the store is dominated by the comparison of the subdirective's name with that word; or it is in a
// function that is the entry for that word in a table of subdirective handlers; or in a helper all of whose calls are
// so dominated.  A store outside (after the block, from per-directive locals) resets the setting with every further
// directive.
func c06R7(h H) {
	r := h.r
	r.Rule("R7", "a later tls directive does not reset what an earlier one set: every store to Config.ProtocolMinVersion/ProtocolMaxVersion, Ciphers, ClientAuth and ClientCerts in caskettls.setupTLS and the unexported functions it is split into is made under the subdirective `protocols`, `ciphers` or `clients` respectively — dominated by the comparison of the subdirective name with that word, or inside the handler filed under that word in a table of subdirective handlers, or in a helper called only from such places", 3)
	fn := h.fn("R7", tlsPkg, "setupTLS")
	if fn == nil {
		return
	}
	word := map[string]string{"ProtocolMinVersion": "protocols", "ProtocolMaxVersion": "protocols", "Ciphers": "ciphers", "ClientAuth": "clients", "ClientCerts": "clients"}
	// handlers filed under a word in a map literal of the package: word -> functions
	filed := map[*ssa.Function]string{}
	tableFuncs := h.p.PkgFuncs(tlsPkg)
	if pk := h.p.Pkg(tlsPkg); pk != nil {
		if ini := pk.Func("init"); ini != nil {
			tableFuncs = append(tableFuncs, ini) // package-level map literals are filled in here
		}
	}
	for _, f := range tableFuncs {
		allInstrs(f, func(in ssa.Instruction) {
			mu, ok := in.(*ssa.MapUpdate)
			if !ok {
				return
			}
			k, isK := constString(mu.Key)
			if !isK {
				return
			}
			var target *ssa.Function
			switch v := mu.Value.(type) {
			case *ssa.Function:
				target = v
			case *ssa.MakeClosure:
				target, _ = v.Fn.(*ssa.Function)
			case *ssa.ChangeType:
				target, _ = v.X.(*ssa.Function)
			}
			if target == nil {
				return
			}
			filed[target] = k
			// a method expression is a thunk around the method
			allInstrs(target, func(x ssa.Instruction) {
				if c := callOf(x); c != nil && c.StaticCallee() != nil && strings.HasSuffix(target.Name(), "$thunk") {
					filed[c.StaticCallee()] = k
				}
			})
		})
	}
	underWord := func(g *ssa.Function, in ssa.Instruction, w string) bool {
		for _, gd := range dominatingGuards(g, nil, in) {
			b, ok := gd.Cond.(*ssa.BinOp)
			if !ok || b.Op != token.EQL || !gd.Pos {
				continue
			}
			for _, op := range []ssa.Value{b.X, b.Y} {
				if s, isC := constString(op); isC && s == w {
					return true
				}
			}
		}
		return false
	}
	var fnUnder func(g *ssa.Function, w string, depth int) bool
	fnUnder = func(g *ssa.Function, w string, depth int) bool {
		if filed[g] == w {
			return true
		}
		if depth > 2 || g == fn {
			return false
		}
		sites := callSitesOf(h.p, g)
		if len(sites) == 0 {
			return false
		}
		for _, cs := range sites {
			if !underWord(cs.Parent(), cs, w) && !fnUnder(cs.Parent(), w, depth+1) {
				return false
			}
		}
		return true
	}
	scope := []*ssa.Function{fn}
	for _, g := range h.p.PkgFuncs(tlsPkg) {
		if g == fn || len(g.Blocks) == 0 {
			continue
		}
		if o := g.Object(); o != nil && o.Exported() {
			continue // the package's API (SetDefaultTLSParams fills in what no directive set)
		}
		if g.Name() == "init" || strings.HasPrefix(g.Name(), "init#") {
			continue
		}
		scope = append(scope, g)
	}
	count := map[string]int{}
	for _, g := range scope {
		for _, gg := range withClosures(g) {
			allInstrs(gg, func(in ssa.Instruction) {
				st, ok := in.(*ssa.Store)
				if !ok {
					return
				}
				fa, ok := st.Addr.(*ssa.FieldAddr)
				if !ok || !strings.HasSuffix(strings.TrimPrefix(fa.X.Type().String(), "*"), "caskettls.Config") {
					return
				}
				f := fieldName(fa.X.Type(), fa.Field)
				w, want := word[f]
				if !want {
					return
				}
				// a freshly allocated Config being filled in (a constructor) is not the site's stored configuration
				if _, isAlloc := fa.X.(*ssa.Alloc); isAlloc {
					return
				}
				count[f]++
				ok = underWord(gg, in, w) || fnUnder(g, w, 0)
				r.Check(ok, "R7", sprintf("%s/store:%s#%d", shortFunc(g), f, count[f]), in.Pos(), "the setting is written only while the subdirective `"+w+"` is being handled")
			})
		}
	}
	if count["ProtocolMinVersion"] == 0 || count["Ciphers"] == 0 || count["ClientAuth"] == 0 {
		r.Unresolve("R7", "caskettls: stores to the protocol range / cipher list / client-certificate policy made by the tls directive's set-up not found")
	}
}

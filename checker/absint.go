package main

// E10 — decision-table extraction by abstract evaluation.
//
// Some clauses are about code that touches its data only through comparisons and selections ("keep the smaller of
// the values that are set").  For such code the set of behaviours is finite once the inputs are abstracted to
// {set, unset} flags and the relative order of the compared quantities.  This file evaluates a function's SSA over
// exactly that abstraction: booleans and small integers are concrete, the compared quantities are opaque symbols
// whose order is fixed per case by an oracle, memory is a map from (object, field path) to abstract values.  Nothing
// of casket is executed; the evaluator walks the SSA the analyser already holds, for every case of a finite
// enumeration, and the rule compares the resulting table with the specification's table.  A branch on a value the
// abstraction cannot decide aborts the case as "undecided", which the rule reports as a failure (never as a pass).

import (
	"fmt"
	"go/constant"
	"go/token"
	"go/types"
	"os"
	"sort"
	"strings"

	"golang.org/x/tools/go/ssa"
)

var absTrace = os.Getenv("VERIF_ABSTRACE") != ""

type aval interface{}

type (
	abool  bool
	aint   int64
	afloat float64  // a concrete floating-point number (q-values, mostly)
	apanic struct{} // what an oracle returns to raise a panic at its call
	astr   string
	asym   struct{ name string } // opaque ordered quantity
	anil   struct{}
	aunk   struct{ why string }
	aptr   struct {
		obj  *aobj
		path string
	}
	aslice struct {
		elems []*aobj // slice of pointers to objects (e.g. []*SiteConfig)
	}
	astruct struct{ f map[string]aval } // struct value: leaf paths relative to the value
	atuple  []aval
	aiface  struct {
		val aval
		typ types.Type
	}
	acb   struct{ name string } // a callback supplied by the case: calling it asks the oracle ("callback:<name>")
	afunc struct {
		fn   *ssa.Function
		free []aval
	}
)

type aobj struct {
	name string
	typ  types.Type // element type (what a pointer to this object points to)
	f    map[string]aval
	in   func(o *aobj, path string, t types.Type) aval // lazily supplies input leaves; nil: zero-initialised
}

type absEnv struct {
	mapRev   bool                                          // walk maps in descending key order (default: ascending)
	cmp      func(a, b aval) (int, bool)                   // order oracle for asym/aint pairs
	globals  map[string]*aobj                              // package-level variables by name
	ext      func(callee string, args []aval) (aval, bool) // results of calls the rule treats as atomic inputs
	steps    int
	maxSteps int
	// undecidable branches are explored both ways (see runForks)
	// slice mode (evalGlobal): in sliceFn only the instructions of sliceSet are executed, up to sliceStop
	sliceFn    *ssa.Function
	sliceSet   map[ssa.Instruction]bool
	sliceStop  *ssa.Store
	newMapOpen func(key string) bool // openness given to http.Header maps the evaluated code creates
	forkPlan   []bool
	forkLog    []bool
	forkMemo   map[string]bool
	noFork     bool
	trace      []string
}

type absAbort struct{ why string }

func (e *absEnv) abort(f string, a ...interface{}) { panic(absAbort{fmt.Sprintf(f, a...)}) }

func underlying(t types.Type) types.Type {
	for {
		u := t.Underlying()
		if u == t {
			return t
		}
		t = u
	}
}

func zeroOf(t types.Type) aval {
	switch u := underlying(t).(type) {
	case *types.Basic:
		switch {
		case u.Info()&types.IsBoolean != 0:
			return abool(false)
		case u.Info()&types.IsInteger != 0:
			return aint(0)
		case u.Info()&types.IsFloat != 0:
			return afloat(0)
		case u.Info()&types.IsString != 0:
			return astr("")
		}
	case *types.Pointer, *types.Slice, *types.Map, *types.Interface, *types.Signature, *types.Chan:
		return anil{}
	case *types.Struct:
		return astruct{map[string]aval{}}
	}
	return aunk{"zero of " + t.String()}
}

// leafType: the type at a dotted field path inside t.
func leafType(t types.Type, path string) types.Type {
	if path == "" {
		return t
	}
	head, rest := path, ""
	if i := strings.Index(path, "."); i >= 0 {
		head, rest = path[:i], path[i+1:]
	}
	if strings.HasPrefix(head, "#") {
		if a, ok := underlying(t).(*types.Array); ok {
			return leafType(a.Elem(), rest)
		}
		return nil
	}
	st, ok := underlying(t).(*types.Struct)
	if !ok {
		return nil
	}
	for i := 0; i < st.NumFields(); i++ {
		if st.Field(i).Name() == head {
			return leafType(st.Field(i).Type(), rest)
		}
	}
	return nil
}

func joinPath(a, b string) string {
	if a == "" {
		return b
	}
	if b == "" {
		return a
	}
	return a + "." + b
}

// load reads the value at (obj, path); struct-typed paths yield an astruct snapshot.
func (e *absEnv) load(o *aobj, path string) aval {
	t := leafType(o.typ, path)
	if t == nil {
		return aunk{"no type for " + o.name + "." + path}
	}
	if st, ok := underlying(t).(*types.Struct); ok {
		out := astruct{map[string]aval{}}
		var rec func(st *types.Struct, rel string)
		rec = func(st *types.Struct, rel string) {
			for i := 0; i < st.NumFields(); i++ {
				fp := joinPath(rel, st.Field(i).Name())
				if s2, ok := underlying(st.Field(i).Type()).(*types.Struct); ok {
					rec(s2, fp)
					continue
				}
				out.f[fp] = e.load(o, joinPath(path, fp))
			}
		}
		rec(st, "")
		return out
	}
	if at, ok := underlying(t).(*types.Array); ok {
		out := astruct{map[string]aval{}}
		for i := int64(0); i < at.Len() && i < 64; i++ {
			k := fmt.Sprintf("#%d", i)
			switch x := e.load(o, joinPath(path, k)).(type) {
			case astruct:
				for kk, vv := range x.f {
					out.f[k+"."+kk] = vv
				}
			default:
				out.f[k] = x
			}
		}
		return out
	}
	if v, ok := o.f[path]; ok {
		return v
	}
	var v aval
	if o.in != nil && o.typ != nil && isNewFieldPath(o.typ, path) {
		// a field the baseline does not have: the hand-built object knows nothing about it (see knownfields.go)
		v = zeroOf(t)
	} else if o.in != nil {
		v = o.in(o, path, t)
	} else {
		v = zeroOf(t)
	}
	o.f[path] = v
	return v
}

func (e *absEnv) store(o *aobj, path string, v aval) {
	if sv, ok := v.(astruct); ok {
		// drop everything under path, then copy the leaves
		for k := range o.f {
			if k == path || strings.HasPrefix(k, path+".") || path == "" {
				delete(o.f, k)
			}
		}
		for k, x := range sv.f {
			o.f[joinPath(path, k)] = x
		}
		return
	}
	o.f[path] = v
}

type absFrame struct {
	fn     *ssa.Function
	regs   map[ssa.Value]aval
	free   []aval
	defers []func()
}

func (e *absEnv) val(fr *absFrame, v ssa.Value) aval {
	switch t := v.(type) {
	case *ssa.Const:
		if t.Value == nil {
			return zeroOf(t.Type())
		}
		if b, ok := underlying(t.Type()).(*types.Basic); ok && b.Info()&types.IsFloat != 0 {
			f, _ := constant.Float64Val(t.Value)
			return afloat(f)
		}
		switch t.Value.Kind() {
		case constant.Bool:
			return abool(constant.BoolVal(t.Value))
		case constant.Int:
			if n, ok := constant.Int64Val(t.Value); ok {
				return aint(n)
			}
		case constant.String:
			return astr(constant.StringVal(t.Value))
		}
		return aunk{"const " + t.String()}
	case *ssa.Global:
		if o, ok := e.globals[t.Name()]; ok {
			return aptr{o, ""}
		}
		if o := e.globalInit(t); o != nil {
			e.globals[t.Name()] = o
			return aptr{o, ""}
		}
		// a variable with one whole-value initialiser (a slice or map literal, a call over literals)
		if t.Pkg != nil && isModPkg(t.Pkg.Pkg.Path()) && theProgram != nil && globalDepth < 4 && !assignedOutsideInit(t) {
			globalDepth++
			v, und := evalGlobalWith(theProgram, strings.TrimPrefix(strings.TrimPrefix(t.Pkg.Pkg.Path(), modPath), "/"), t.Name(), e.ext)
			globalDepth--
			if und == "" && v != nil {
				if _, isUnk := v.(aunk); !isUnk {
					o := &aobj{name: t.Name(), typ: t.Type().(*types.Pointer).Elem(), f: map[string]aval{"": v}}
					e.globals[t.Name()] = o
					return aptr{o, ""}
				}
			}
		}
		// any other package-level variable of the module: an object of its own (a stable identity — taking its address
		// twice yields the same pointer); its content is its zero value if nothing but an initialiser could have
		// written it, unknown otherwise
		if t.Pkg != nil && isModPkg(t.Pkg.Pkg.Path()) {
			if pt, ok := t.Type().(*types.Pointer); ok {
				o := &aobj{name: "package variable " + t.Name(), typ: pt.Elem(), f: map[string]aval{}}
				written := assignedOutsideInit(t)
				if !written {
					// stores in init functions count as writes too
					for _, m := range t.Pkg.Members {
						if f, ok := m.(*ssa.Function); ok && strings.HasPrefix(f.Name(), "init") {
							for _, g := range withClosures(f) {
								allInstrs(g, func(in ssa.Instruction) {
									if st, ok := in.(*ssa.Store); ok && rootOf(st.Addr) == ssa.Value(t) {
										written = true
									}
								})
							}
						}
					}
				}
				name := t.Name()
				o.in = func(ob *aobj, path string, ft types.Type) aval {
					if written {
						return aunk{"package variable " + name + " " + path}
					}
					return zeroOf(ft)
				}
				e.globals[t.Name()] = o
				return aptr{o, ""}
			}
		}
		return aunk{"global " + t.Name()}
	case *ssa.Function:
		return afunc{t, nil}
	case *ssa.FreeVar:
		for i, fv := range fr.fn.FreeVars {
			if fv == t && i < len(fr.free) {
				return fr.free[i]
			}
		}
		return aunk{"freevar " + t.Name()}
	}
	if x, ok := fr.regs[v]; ok {
		return x
	}
	return aunk{"undefined " + v.Name()}
}

func (e *absEnv) truth(v aval, what string) bool {
	b, ok := v.(abool)
	if ok {
		return bool(b)
	}
	if e.noFork || e.forkMemo == nil {
		e.abort("branch on a value the abstraction cannot decide (%s: %v)", what, describeAval(v))
	}
	key := what + "=" + describeAval(v)
	if d, ok := e.forkMemo[key]; ok {
		return d
	}
	d := false
	if k := len(e.forkLog); k < len(e.forkPlan) {
		d = e.forkPlan[k]
	}
	if len(e.forkLog) >= 12 {
		e.abort("too many branches the abstraction cannot decide (last: %s: %v)", what, describeAval(v))
	}
	e.forkLog = append(e.forkLog, d)
	e.forkMemo[key] = d
	return d
}

func describeAval(v aval) string {
	switch t := v.(type) {
	case abool:
		return fmt.Sprintf("%v", bool(t))
	case aint:
		return fmt.Sprintf("%d", int64(t))
	case afloat:
		return fmt.Sprintf("%g", float64(t))
	case astr:
		return fmt.Sprintf("%q", string(t))
	case asym:
		return t.name
	case anil:
		return "nil"
	case aunk:
		return "?(" + t.why + ")"
	case acb:
		return "callback " + t.name
	case aptr:
		return "&" + t.obj.name + "." + t.path
	case astrv, avals, amap:
		d, _ := describeStrVal(t)
		return d
	case alo:
		return fmt.Sprintf("(>=%d)", t.min)
	case aend:
		return fmt.Sprintf("len-%d", t.back)
	case apos:
		return fmt.Sprintf("pos(atom %d+%d%+d)", t.ai, t.off, t.delta)
	case nil:
		return "-"
	case astruct:
		var ks []string
		for k, x := range t.f {
			ks = append(ks, k+"="+describeAval(x))
		}
		sort.Strings(ks)
		return "{" + strings.Join(ks, ",") + "}"
	}
	return fmt.Sprintf("%T", v)
}

func (e *absEnv) binop(op token.Token, a, b aval) aval {
	// two interface values are equal when their dynamic values are (pointer identity, strings, numbers)
	if x, ok := a.(aiface); ok {
		if y, ok := b.(aiface); ok && (op == token.EQL || op == token.NEQ) {
			_, px := x.val.(aptr)
			_, py := y.val.(aptr)
			if px && py {
				return e.binop(op, x.val, y.val)
			}
		}
	}
	if v, ok := strBinop(op, a, b); ok {
		return v
	}
	// booleans
	if x, ok := a.(abool); ok {
		if y, ok := b.(abool); ok {
			switch op {
			case token.EQL:
				return abool(x == y)
			case token.NEQ:
				return abool(x != y)
			case token.AND, token.LAND:
				return abool(x && y)
			case token.OR, token.LOR:
				return abool(x || y)
			}
		}
	}
	if x, ok := a.(astr); ok {
		if y, ok := b.(astr); ok {
			switch op {
			case token.EQL:
				return abool(x == y)
			case token.NEQ:
				return abool(x != y)
			case token.ADD:
				return x + y
			}
		}
	}
	if x, ok := a.(aint); ok {
		if y, ok := b.(aint); ok {
			switch op {
			case token.ADD:
				return x + y
			case token.SUB:
				return x - y
			case token.MUL:
				return x * y
			case token.REM:
				if y != 0 {
					return x % y
				}
			case token.QUO:
				if y != 0 {
					return x / y
				}
			case token.SHL:
				if y >= 0 && y < 63 {
					return x << uint(y)
				}
			case token.SHR:
				if y >= 0 && y < 63 {
					return x >> uint(y)
				}
			case token.OR:
				return x | y
			case token.AND:
				return x & y
			case token.XOR:
				return x ^ y
			case token.AND_NOT:
				return x &^ y
			case token.EQL:
				return abool(x == y)
			case token.NEQ:
				return abool(x != y)
			case token.LSS:
				return abool(x < y)
			case token.LEQ:
				return abool(x <= y)
			case token.GTR:
				return abool(x > y)
			case token.GEQ:
				return abool(x >= y)
			}
		}
	}
	if x, ok := a.(afloat); ok {
		if y, ok := b.(afloat); ok {
			switch op {
			case token.ADD:
				return x + y
			case token.SUB:
				return x - y
			case token.MUL:
				return x * y
			case token.QUO:
				return x / y
			case token.EQL:
				return abool(x == y)
			case token.NEQ:
				return abool(x != y)
			case token.LSS:
				return abool(x < y)
			case token.LEQ:
				return abool(x <= y)
			case token.GTR:
				return abool(x > y)
			case token.GEQ:
				return abool(x >= y)
			}
		}
	}
	// anything modulo 1 is 0 (reservoir sampling's first draw)
	if op == token.REM {
		if y, ok := b.(aint); ok && y == 1 {
			return aint(0)
		}
	}
	// a function value supplied by the case is not nil
	if op == token.EQL || op == token.NEQ {
		_, fa := a.(acb)
		_, fb := b.(acb)
		_, na := a.(anil)
		_, nb := b.(anil)
		if (fa && nb) || (fb && na) {
			return abool(op == token.NEQ)
		}
	}
	// pointer identity
	if x, ok := a.(aptr); ok {
		if y, ok := b.(aptr); ok {
			switch op {
			case token.EQL:
				return abool(x.obj == y.obj && x.path == y.path)
			case token.NEQ:
				return abool(!(x.obj == y.obj && x.path == y.path))
			}
		}
	}
	// nil comparisons
	_, an := a.(anil)
	_, bn := b.(anil)
	if an || bn {
		_, ap := a.(aptr)
		_, bp := b.(aptr)
		_, af := a.(afunc)
		_, bf := b.(afunc)
		_, ai := a.(aiface)
		_, bi := b.(aiface)
		_, am := a.(amap)
		_, bm := b.(amap)
		_, av := a.(avals)
		_, bv := b.(avals)
		eq := an && bn
		known := (an && bn) || ap || bp || af || bf || ai || bi || am || bm || av || bv
		if known {
			switch op {
			case token.EQL:
				return abool(eq)
			case token.NEQ:
				return abool(!eq)
			}
		}
	}
	// ordered symbols
	switch op {
	case token.EQL, token.NEQ, token.LSS, token.LEQ, token.GTR, token.GEQ:
		if e.cmp != nil {
			if c, ok := e.cmp(a, b); ok {
				switch op {
				case token.EQL:
					return abool(c == 0)
				case token.NEQ:
					return abool(c != 0)
				case token.LSS:
					return abool(c < 0)
				case token.LEQ:
					return abool(c <= 0)
				case token.GTR:
					return abool(c > 0)
				case token.GEQ:
					return abool(c >= 0)
				}
			}
		}
	}
	return aunk{fmt.Sprintf("%s %s %s", describeAval(a), op, describeAval(b))}
}

// call evaluates fn on args and returns its results.
func (e *absEnv) call(fn *ssa.Function, args []aval, free []aval, depth int) aval {
	if depth > 16 {
		e.abort("call depth exceeded at %s", fn.Name())
	}
	if len(fn.Blocks) == 0 {
		return aunk{"no body: " + fn.String()}
	}
	fr := &absFrame{fn: fn, regs: map[ssa.Value]aval{}, free: free}
	for i, p := range fn.Params {
		if i < len(args) {
			fr.regs[p] = args[i]
		}
	}
	var prev *ssa.BasicBlock
	b := fn.Blocks[0]
	for {
		// φs read the values of the predecessor simultaneously
		phiVals := map[*ssa.Phi]aval{}
		for _, in := range b.Instrs {
			ph, ok := in.(*ssa.Phi)
			if !ok {
				break
			}
			for k, p := range b.Preds {
				if p == prev {
					phiVals[ph] = e.val(fr, ph.Edges[k])
				}
			}
		}
		for ph, v := range phiVals {
			fr.regs[ph] = v
		}
		var next *ssa.BasicBlock
		for _, in := range b.Instrs {
			e.steps++
			if e.steps > e.maxSteps {
				e.abort("step limit exceeded in %s", fn.Name())
			}
			if fn == e.sliceFn && e.sliceSet != nil {
				if in == ssa.Instruction(e.sliceStop) {
					return e.val(fr, e.sliceStop.Val)
				}
				if !e.sliceSet[in] {
					switch t := in.(type) {
					case *ssa.If:
						// not part of the slice: go where the target is
						if blockReaches(b.Succs[0], e.sliceStop.Block()) || b.Succs[0] == e.sliceStop.Block() {
							next = b.Succs[0]
						} else {
							next = b.Succs[1]
						}
					case *ssa.Jump:
						next = b.Succs[0]
					case *ssa.Return:
						return aunk{"initialiser not reached"}
					default:
						if v, ok := in.(ssa.Value); ok {
							fr.regs[v] = aunk{"outside the initialiser's slice"}
						}
						_ = t
					}
					continue
				}
			}
			if e.instrStr(fr, in) {
				continue
			}
			switch t := in.(type) {
			case *ssa.Phi, *ssa.DebugRef:
			case *ssa.Alloc:
				o := &aobj{name: fmt.Sprintf("%s@%s", t.Comment, fn.Name()), typ: t.Type().(*types.Pointer).Elem(), f: map[string]aval{}}
				fr.regs[t] = aptr{o, ""}
			case *ssa.FieldAddr:
				p, ok := e.val(fr, t.X).(aptr)
				if !ok {
					fr.regs[t] = aunk{"field of non-pointer " + describeAval(e.val(fr, t.X))}
					continue
				}
				fr.regs[t] = aptr{p.obj, joinPath(p.path, fieldName(t.X.Type(), t.Field))}
			case *ssa.Field:
				switch x := e.val(fr, t.X).(type) {
				case astruct:
					name := fieldName(t.X.Type(), t.Field)
					if v, ok := x.f[name]; ok {
						fr.regs[t] = v
					} else {
						sub := astruct{map[string]aval{}}
						for k, v := range x.f {
							if strings.HasPrefix(k, name+".") {
								sub.f[k[len(name)+1:]] = v
							}
						}
						if len(sub.f) == 0 {
							fr.regs[t] = zeroOf(t.Type())
						} else {
							fr.regs[t] = sub
						}
					}
				default:
					fr.regs[t] = aunk{"field of " + describeAval(x)}
				}
			case *ssa.Index:
				idx, iok := e.val(fr, t.Index).(aint)
				if v, ok := strIndex(e.val(fr, t.X), int64(idx)); ok && iok {
					fr.regs[t] = v
				} else if v, ok := strIndexAt(e.val(fr, t.X), e.val(fr, t.Index)); ok {
					fr.regs[t] = v
				} else if _, isS := toAtoms(e.val(fr, t.X)); isS {
					e.abort("string index at a position the abstraction cannot place (%s[%s])", describeAval(e.val(fr, t.X)), describeAval(e.val(fr, t.Index)))
				} else if x, ok := e.val(fr, t.X).(astruct); ok && iok {
					k := fmt.Sprintf("#%d", idx)
					if v, ok := x.f[k]; ok {
						fr.regs[t] = v
					} else {
						sub := astruct{map[string]aval{}}
						for kk, vv := range x.f {
							if strings.HasPrefix(kk, k+".") {
								sub.f[kk[len(k)+1:]] = vv
							}
						}
						fr.regs[t] = sub
					}
				} else {
					fr.regs[t] = aunk{"index of " + describeAval(e.val(fr, t.X))}
				}
			case *ssa.IndexAddr:
				idx, iok := e.val(fr, t.Index).(aint)
				switch x := e.val(fr, t.X).(type) {
				case aslice:
					if !iok || int(idx) < 0 || int(idx) >= len(x.elems) {
						e.abort("index out of the abstract slice in %s", fn.Name())
					}
					// element i of a []*T: a cell holding the pointer
					cell := &aobj{name: fmt.Sprintf("cell%d", idx), typ: t.Type().(*types.Pointer).Elem(), f: map[string]aval{"": aptr{x.elems[idx], ""}}}
					fr.regs[t] = aptr{cell, ""}
				case avals:
					if !iok || int(idx) < 0 || int(idx) >= len(x.cells) {
						e.abort("index out of the abstract slice in %s", fn.Name())
					}
					fr.regs[t] = aptr{x.cells[idx], ""}
				case aptr:
					if _, isArr := underlying(leafTypeOr(x.obj.typ, x.path)).(*types.Array); isArr && iok {
						fr.regs[t] = aptr{x.obj, joinPath(x.path, fmt.Sprintf("#%d", idx))}
					} else {
						fr.regs[t] = aunk{"index of " + describeAval(x)}
					}
				default:
					fr.regs[t] = aunk{"index of " + describeAval(x)}
				}
			case *ssa.UnOp:
				x := e.val(fr, t.X)
				switch t.Op {
				case token.MUL:
					p, ok := x.(aptr)
					if !ok {
						fr.regs[t] = aunk{"load through " + describeAval(x)}
						continue
					}
					if v, ok := p.obj.f[p.path]; ok && p.path == "" {
						fr.regs[t] = v
						continue
					}
					fr.regs[t] = e.load(p.obj, p.path)
				case token.NOT:
					if bv, ok := x.(abool); ok {
						fr.regs[t] = !bv
					} else {
						fr.regs[t] = aunk{"!" + describeAval(x)}
					}
				case token.SUB:
					if iv, ok := x.(aint); ok {
						fr.regs[t] = -iv
					} else {
						fr.regs[t] = aunk{"-" + describeAval(x)}
					}
				default:
					fr.regs[t] = aunk{"unop " + t.Op.String()}
				}
			case *ssa.BinOp:
				fr.regs[t] = wrapInt(e.binop(t.Op, e.val(fr, t.X), e.val(fr, t.Y)), t.Type())
			case *ssa.Store:
				p, ok := e.val(fr, t.Addr).(aptr)
				if !ok {
					continue // store through something we do not model
				}
				e.store(p.obj, p.path, e.val(fr, t.Val))
			case *ssa.Convert:
				fr.regs[t] = e.convert(t, e.val(fr, t.X))
			case *ssa.ChangeType:
				fr.regs[t] = e.val(fr, t.X)
			case *ssa.MakeInterface:
				fr.regs[t] = aiface{e.val(fr, t.X), t.X.Type()}
			case *ssa.ChangeInterface:
				fr.regs[t] = e.val(fr, t.X)
			case *ssa.MakeClosure:
				var fv []aval
				for _, b := range t.Bindings {
					fv = append(fv, e.val(fr, b))
				}
				fr.regs[t] = afunc{t.Fn.(*ssa.Function), fv}
			case *ssa.Extract:
				if tp, ok := e.val(fr, t.Tuple).(atuple); ok && t.Index < len(tp) {
					fr.regs[t] = tp[t.Index]
				} else {
					fr.regs[t] = aunk{"extract"}
				}
			case *ssa.Call:
				fr.regs[t] = e.doCall(fr, &t.Call, depth)
				if _, unwinding := fr.regs[t].(apanic); unwinding {
					// a panic raised by an oracle: the frame's deferred calls run, then it goes on to the caller
					// (recover is not modelled: a table that scripts a panic looks at the state left behind)
					for i := len(fr.defers) - 1; i >= 0; i-- {
						fr.defers[i]()
					}
					fr.defers = nil
					return apanic{}
				}
				if absTrace {
					println("TRACE", fn.Name(), calleeName(&t.Call), "=>", describeAval(fr.regs[t]))
				}
			case *ssa.If:
				if absTrace {
					println("TRACE", fn.Name(), "if", describe(t.Cond), "=", describeAval(e.val(fr, t.Cond)))
				}
				if e.truth(e.val(fr, t.Cond), fn.Name()+": "+describe(t.Cond)) {
					next = b.Succs[0]
				} else {
					next = b.Succs[1]
				}
			case *ssa.Jump:
				next = b.Succs[0]
			case *ssa.Return:
				if len(t.Results) == 1 {
					return e.val(fr, t.Results[0])
				}
				var out atuple
				for _, r := range t.Results {
					out = append(out, e.val(fr, r))
				}
				return out
			case *ssa.TypeAssert:
				x := e.val(fr, t.X)
				okv, known := false, false
				var val aval = aunk{"type assertion"}
				switch v := x.(type) {
				case anil:
					okv, known = false, true
					val = zeroOf(t.AssertedType)
				case aiface:
					known = true
					if types.Identical(t.AssertedType, t.X.Type()) {
						// go/ssa's nil check for a method value taken from an interface: any non-nil value passes
						okv, val = true, v
					} else if it, isI := underlying(t.AssertedType).(*types.Interface); isI {
						okv = types.Implements(v.typ, it)
						val = v
					} else {
						okv = types.Identical(v.typ, t.AssertedType)
						val = v.val
					}
					if !okv {
						val = zeroOf(t.AssertedType)
					}
				}
				switch {
				case t.CommaOk && known:
					fr.regs[t] = atuple{val, abool(okv)}
				case t.CommaOk:
					fr.regs[t] = atuple{aunk{"type assertion on " + describeAval(x)}, aunk{"type assertion on " + describeAval(x)}}
				case known && okv:
					fr.regs[t] = val
				case known:
					e.abort("a type assertion that fails (panics) in %s", fn.Name())
				default:
					fr.regs[t] = aunk{"type assertion on " + describeAval(x)}
				}
			case *ssa.Defer:
				// arguments are evaluated now, the call happens when the function returns
				cc := t.Call
				var fv aval
				if !cc.IsInvoke() {
					fv = e.val(fr, cc.Value)
				}
				var args []aval
				for _, a := range cc.Args {
					args = append(args, e.val(fr, a))
				}
				if f, ok := fv.(afunc); ok && len(f.fn.Blocks) > 0 && fnPkg(f.fn) != nil && isModPkg(fnPkg(f.fn).Path()) {
					fr.defers = append(fr.defers, func() { e.call(f.fn, args, f.free, depth+1) })
				} else if f := cc.StaticCallee(); f != nil && len(f.Blocks) > 0 && fnPkg(f) != nil && isModPkg(fnPkg(f).Path()) {
					var free []aval
					if mc, ok := cc.Value.(*ssa.MakeClosure); ok {
						for _, b := range mc.Bindings {
							free = append(free, e.val(fr, b))
						}
					}
					fr.defers = append(fr.defers, func() { e.call(f, args, free, depth+1) })
				} else if !cc.IsInvoke() {
					// a deferred call of something the abstraction models (sync/atomic, an oracle)
					name := calleeName(&cc)
					fr.defers = append(fr.defers, func() {
						if e.ext != nil {
							if _, ok := e.ext(name, args); ok {
								return
							}
						}
						if _, ok := e.strCall(name, args); ok {
							return
						}
						e.stdCall(fr, name, args, depth)
					})
				} else if e.ext != nil {
					recvArgs := append([]aval{e.val(fr, cc.Value)}, args...)
					mname := "invoke:" + cc.Method.Name()
					fr.defers = append(fr.defers, func() { e.ext(mname, recvArgs) })
				}
			case *ssa.RunDefers:
				for i := len(fr.defers) - 1; i >= 0; i-- {
					fr.defers[i]()
				}
				fr.defers = nil
			case *ssa.Go:
				// concurrent calls are outside the abstraction
			case *ssa.Panic:
				e.abort("reaches an explicit panic in %s", fn.Name())
			default:
				if v, ok := in.(ssa.Value); ok {
					fr.regs[v] = aunk{fmt.Sprintf("%T", in)}
				}
			}
		}
		if next == nil {
			e.abort("fell off block %d of %s", b.Index, fn.Name())
		}
		prev, b = b, next
	}
}

func (e *absEnv) doCall(fr *absFrame, c *ssa.CallCommon, depth int) aval {
	if c.IsInvoke() {
		recv := e.val(fr, c.Value)
		args0 := []aval{recv}
		for _, a := range c.Args {
			args0 = append(args0, e.val(fr, a))
		}
		if e.ext != nil {
			if v, ok := e.ext("invoke:"+c.Method.Name(), args0); ok {
				return v
			}
		}
		if ifc, ok := recv.(aiface); ok {
			if sel := types.NewMethodSet(ifc.typ).Lookup(c.Method.Pkg(), c.Method.Name()); sel != nil {
				if m := fr.fn.Prog.MethodValue(sel); m != nil && len(m.Blocks) > 0 {
					args := append([]aval{ifc.val}, args0[1:]...)
					if e.ext != nil {
						if v, ok := e.ext(m.String(), args); ok {
							return v
						}
					}
					return e.call(m, args, nil, depth+1)
				}
			}
		}
		return aunk{"invoke " + c.Method.Name()}
	}
	if bi, ok := c.Value.(*ssa.Builtin); ok {
		switch bi.Name() {
		case "ssa:wrapnilchk":
			return e.val(fr, c.Args[0])
		case "recover":
			return anil{} // panics are not modelled
		case "len":
			switch x := e.val(fr, c.Args[0]).(type) {
			case aslice:
				return aint(len(x.elems))
			case astr:
				return aint(len(x))
			case astrv:
				if n, ok := strLen(x); ok {
					return aint(n)
				}
				min := int64(0)
				for _, at := range x.atoms {
					if at.sym == "" {
						min += int64(len(at.lit))
					} else {
						min++
					}
				}
				return aend{key: renderAtoms(x.atoms), min: min}
			case avals:
				return aint(len(x.cells))
			case amap:
				return aint(len(x.m.vals))
			case anil:
				return aint(0)
			}
		case "copy":
			dst, ok := e.val(fr, c.Args[0]).(avals)
			if !ok {
				return aunk{"copy into " + describeAval(e.val(fr, c.Args[0]))}
			}
			var src []aval
			switch s := e.val(fr, c.Args[1]).(type) {
			case avals:
				for _, cl := range s.cells {
					src = append(src, e.cellVal(cl))
				}
			case anil:
			default:
				return aunk{"copy from " + describeAval(s)}
			}
			n := len(src)
			if len(dst.cells) < n {
				n = len(dst.cells)
			}
			for i := 0; i < n; i++ {
				e.store(dst.cells[i], "", src[i])
			}
			return aint(n)
		case "append":
			var cells []*aobj
			var elem types.Type = types.Typ[types.Invalid]
			if sl, ok := underlying(c.Args[0].Type()).(*types.Slice); ok {
				elem = sl.Elem()
			}
			var spare []*aobj
			switch x := e.val(fr, c.Args[0]).(type) {
			case avals:
				cells = append(cells, x.cells...)
				spare = x.spare
			case anil:
			default:
				return aunk{"append to " + describeAval(x)}
			}
			if len(c.Args) > 1 {
				switch y := e.val(fr, c.Args[1]).(type) {
				case avals:
					// the values first (the source may share the array that is about to be overwritten)
					var fresh []*aobj
					for _, cl := range y.cells {
						fresh = append(fresh, newVals([]aval{e.cellVal(cl)}, elem).cells...)
					}
					for _, nc := range fresh {
						if len(spare) > 0 {
							// room left in the backing array: the element is written in place
							old := spare[0]
							spare = spare[1:]
							old.f, old.in, old.typ = nc.f, nc.in, nc.typ
							cells = append(cells, old)
						} else {
							cells = append(cells, nc)
						}
					}
				case anil:
				default:
					return aunk{"append of " + describeAval(y)}
				}
			}
			return avals{cells: cells, spare: spare}
		case "min", "max":
			// integer min/max over ordered symbols
			vals := make([]aval, len(c.Args))
			for i, a := range c.Args {
				vals[i] = e.val(fr, a)
			}
			best := vals[0]
			for _, v := range vals[1:] {
				lt := e.binop(token.LSS, v, best)
				b, ok := lt.(abool)
				if !ok {
					return aunk{"min/max of incomparable values"}
				}
				if bool(b) == (bi.Name() == "min") {
					best = v
				}
			}
			return best
		}
		return aunk{"builtin " + bi.Name()}
	}
	var callee *ssa.Function
	var free []aval
	switch t := c.Value.(type) {
	case *ssa.Function:
		callee = t
	case *ssa.MakeClosure:
		callee = t.Fn.(*ssa.Function)
		for _, b := range t.Bindings {
			free = append(free, e.val(fr, b))
		}
	default:
		switch f := e.val(fr, c.Value).(type) {
		case afunc:
			callee = f.fn
			free = f.free
		case acb:
			var args []aval
			for _, a := range c.Args {
				args = append(args, e.val(fr, a))
			}
			if e.ext != nil {
				if v, ok := e.ext("callback:"+f.name, args); ok {
					return v
				}
			}
			return aunk{"callback " + f.name}
		}
	}
	var args []aval
	for _, a := range c.Args {
		args = append(args, e.val(fr, a))
	}
	name := calleeName(c)
	if name == "" && callee != nil {
		name = funcName(callee) // a function value (net.FileListener handed to a helper) is the function it holds
	}
	if e.ext != nil {
		if v, ok := e.ext(name, args); ok {
			return v
		}
	}
	if v, ok := e.strCall(name, args); ok {
		return v
	}
	if v, ok := e.stdCall(fr, name, args, depth); ok {
		return v
	}
	if callee == nil || len(callee.Blocks) == 0 {
		return aunk{"call " + name}
	}
	if p := fnPkg(callee); p == nil || !isModPkg(p.Path()) {
		return aunk{"call " + name}
	}
	return e.call(callee, args, free, depth+1)
}

// run evaluates fn(args) and reports the result or the reason the case could not be decided.
func (e *absEnv) run(fn *ssa.Function, args []aval) (res aval, undecided string) {
	defer func() {
		if r := recover(); r != nil {
			if a, ok := r.(absAbort); ok {
				undecided = a.why
				return
			}
			undecided = fmt.Sprintf("the abstract evaluator could not handle a construct (%v)", r)
		}
	}()
	if e.maxSteps == 0 {
		e.maxSteps = 20000
	}
	e.steps = 0
	return e.call(fn, args, nil, 0), ""
}

// weakOrders enumerates all weak orderings of n items as rank vectors (rank 0 is the smallest; equal ranks are ties).
func weakOrders(n int) [][]int {
	var out [][]int
	var rec func(i int, cur []int, maxRank int)
	rec = func(i int, cur []int, maxRank int) {
		if i == n {
			// ranks must be "dense" 0..k: canonical form requires every rank below max to appear
			seen := map[int]bool{}
			for _, r := range cur {
				seen[r] = true
			}
			for r := 0; r <= maxRank; r++ {
				if !seen[r] {
					return
				}
			}
			out = append(out, append([]int{}, cur...))
			return
		}
		for r := 0; r < n; r++ {
			m := maxRank
			if r > m {
				m = r
			}
			rec(i+1, append(cur, r), m)
		}
	}
	rec(0, nil, -1)
	return out
}

func leafTypeOr(t types.Type, path string) types.Type {
	if lt := leafType(t, path); lt != nil {
		return lt
	}
	return types.Typ[types.Invalid]
}

// runForks evaluates fn for every resolution of the branches the abstraction cannot decide (conditions on data
// outside the modelled inputs, e.g. a log line that distinguishes an empty host).  mk builds fresh arguments for
// each run; each is called per run and returns false to stop.  The same undecidable condition gets the same
// answer throughout one run.
func (e *absEnv) runForks(fn *ssa.Function, mk func() []aval, each func(res aval, undecided string, forks int) bool) {
	var plan []bool
	for runs := 0; runs < 4096; runs++ {
		e.forkPlan, e.forkLog, e.forkMemo = plan, nil, map[string]bool{}
		res, und := e.run(fn, mk())
		if !each(res, und, len(e.forkLog)) {
			return
		}
		// next plan: flip the last decision that is still false
		log := append([]bool{}, e.forkLog...)
		k := len(log) - 1
		for k >= 0 && log[k] {
			k--
		}
		if k < 0 {
			return
		}
		plan = append(log[:k:k], true)
	}
	each(nil, "more than 4096 resolutions of undecidable branches", 0)
}

// convert models the conversions between strings, bytes and byte slices (everything else passes through).
func (e *absEnv) convert(t *ssa.Convert, x aval) aval {
	isStrT := func(tt types.Type) bool {
		b, ok := underlying(tt).(*types.Basic)
		return ok && b.Info()&types.IsString != 0
	}
	isIntT := func(tt types.Type) bool {
		b, ok := underlying(tt).(*types.Basic)
		return ok && b.Info()&types.IsInteger != 0
	}
	isBytes := func(tt types.Type) bool {
		sl, ok := underlying(tt).(*types.Slice)
		if !ok {
			return false
		}
		b, ok := underlying(sl.Elem()).(*types.Basic)
		return ok && b.Kind() == types.Uint8
	}
	isRunes := func(tt types.Type) bool {
		sl, ok := underlying(tt).(*types.Slice)
		if !ok {
			return false
		}
		b, ok := underlying(sl.Elem()).(*types.Basic)
		return ok && b.Kind() == types.Int32
	}
	from, to := t.X.Type(), t.Type()
	switch {
	case isIntT(from) && isStrT(to):
		switch v := x.(type) {
		case aint:
			return astr(string(rune(v)))
		case astrv:
			// a byte taken from an abstract string: string(b) is the UTF-8 encoding of the code point b — the byte
			// itself only below 0x80.  For a byte that is no particular character the result is a different symbol
			// (the same one for the same byte), so string(s[i]) and s[i:i+1] are not interchangeable as keys.
			if len(v.atoms) == 1 && v.atoms[0].sym != "" && v.atoms[0].byte1 {
				a := v.atoms[0]
				return astrv{[]atom{{sym: "utf8(" + a.sym + ")", lower: a.lower, cv: a.cv}}}
			}
			return v
		}
		return aunk{"string(" + describeAval(x) + ")"}
	case isStrT(from) && isBytes(to):
		a, ok := toAtoms(x)
		if !ok {
			return aunk{"[]byte(" + describeAval(x) + ")"}
		}
		cs, ok := chars(a)
		if !ok {
			return aunk{"[]byte of a string with labels of unknown length"}
		}
		var vs []aval
		for _, c := range cs {
			if c.sym == "" {
				vs = append(vs, aint(c.lit[0]))
			} else {
				vs = append(vs, astrv{[]atom{c}})
			}
		}
		return newVals(vs, types.Typ[types.Uint8])
	case isRunes(from) && isStrT(to):
		if _, isNil := x.(anil); isNil {
			return astr("")
		}
		sl, ok := x.(avals)
		if !ok {
			return aunk{"string(" + describeAval(x) + ")"}
		}
		var rs []rune
		for _, c := range sl.cells {
			v, ok := c.f[""].(aint)
			if !ok {
				return aunk{"string of runes " + describeAval(c.f[""])}
			}
			rs = append(rs, rune(v))
		}
		return astr(string(rs))
	case isBytes(from) && isStrT(to):
		if _, isNil := x.(anil); isNil {
			return astr("")
		}
		sl, ok := x.(avals)
		if !ok {
			return aunk{"string(" + describeAval(x) + ")"}
		}
		var all []atom
		for _, c := range sl.cells {
			switch v := c.f[""].(type) {
			case aint:
				all = append(all, atom{lit: string([]byte{byte(v)})})
			case astrv:
				all = append(all, v.atoms...)
			default:
				return aunk{"string of bytes " + describeAval(v)}
			}
		}
		return mkStr(all)
	}
	return wrapInt(x, to)
}

// wrapInt reduces a concrete integer to the range of a sized integer type (uint16 arithmetic wraps at 65536).
func wrapInt(v aval, t types.Type) aval {
	n, ok := v.(aint)
	if !ok {
		return v
	}
	b, ok := underlying(t).(*types.Basic)
	if !ok {
		return v
	}
	switch b.Kind() {
	case types.Uint8:
		return aint(uint8(n))
	case types.Uint16:
		return aint(uint16(n))
	case types.Uint32:
		return aint(uint32(n))
	case types.Int8:
		return aint(int8(n))
	case types.Int16:
		return aint(int16(n))
	case types.Int32:
		return aint(int32(n))
	}
	return v
}

// globalInit: a package-level variable of the module whose only store in the whole program is, in its package's
// init function, a constant or a function value (e.g. `var isAvailable = (*UpstreamHost).Available`) is read as
// that value.  Anything else stays outside the abstraction.
func (e *absEnv) globalInit(g *ssa.Global) *aobj {
	if g.Pkg == nil || !isModPkg(g.Pkg.Pkg.Path()) {
		return nil
	}
	// address path below the global: field names and constant indices
	var pathOf func(v ssa.Value) (string, bool)
	pathOf = func(v ssa.Value) (string, bool) {
		switch t := v.(type) {
		case *ssa.Global:
			return "", t == g
		case *ssa.FieldAddr:
			p, ok := pathOf(t.X)
			return joinPath(p, fieldName(t.X.Type(), t.Field)), ok
		case *ssa.IndexAddr:
			p, ok := pathOf(t.X)
			c, isC := constInt(t.Index)
			if !ok || !isC {
				return "", false
			}
			return joinPath(p, fmt.Sprintf("#%d", c)), true
		}
		return "", false
	}
	o := &aobj{name: g.Name(), typ: g.Type().(*types.Pointer).Elem(), f: map[string]aval{}}
	n := 0
	trusted := true
	complex := false // some element is computed: leave the variable to the slice evaluation of its initialiser
	for _, m := range g.Pkg.Members {
		f, ok := m.(*ssa.Function)
		if !ok {
			continue
		}
		isInit := f.Name() == "init" || strings.HasPrefix(f.Name(), "init#")
		for _, fn := range withClosures(f) {
			allInstrs(fn, func(in ssa.Instruction) {
				st, ok := in.(*ssa.Store)
				if !ok {
					return
				}
				p, under := pathOf(st.Addr)
				if !under {
					return
				}
				if !isInit || fn != f {
					trusted = false // assigned at run time: its value is not a constant of the program
					return
				}
				n++
				switch v := st.Val.(type) {
				case *ssa.Function:
					o.f[p] = afunc{v, nil}
				case *ssa.Const:
					o.f[p] = e.val(&absFrame{regs: map[ssa.Value]aval{}}, v)
				case *ssa.MakeClosure:
					if len(v.Bindings) == 0 {
						o.f[p] = afunc{v.Fn.(*ssa.Function), nil}
					} else {
						o.f[p] = aunk{"initialiser of " + g.Name() + "." + p}
					}
				case *ssa.ChangeType:
					if f2, ok := v.X.(*ssa.Function); ok {
						o.f[p] = afunc{f2, nil}
					} else {
						o.f[p] = aunk{"initialiser of " + g.Name() + "." + p}
					}
				default:
					complex = true
				}
			})
		}
	}
	if !trusted || n == 0 || complex {
		return nil
	}
	return o
}

// evalGlobal evaluates the initialiser of a package-level variable: the backward slice of the store in the package's
// init function (the instructions the stored value is computed from, including the element stores of composite
// literals) is executed abstractly, everything else in init is skipped.
func evalGlobal(p *Program, rel, name string) (aval, string) {
	return evalGlobalWith(p, rel, name, nil)
}

// evalGlobalWith: as evalGlobal, with the caller's call oracle (the initialiser may call what the rule models).
func evalGlobalWith(p *Program, rel, name string, ext func(string, []aval) (aval, bool)) (aval, string) {
	pk := p.Pkg(rel)
	if pk == nil {
		return nil, "package not loaded"
	}
	g, ok := pk.Members[name].(*ssa.Global)
	if !ok {
		return nil, "no such variable"
	}
	init := pk.Func("init")
	if init == nil {
		return nil, "no init function"
	}
	var stop *ssa.Store
	n := 0
	allInstrs(init, func(in ssa.Instruction) {
		if st, ok := in.(*ssa.Store); ok && st.Addr == ssa.Value(g) {
			stop = st
			n++
		}
	})
	if n != 1 {
		return nil, fmt.Sprintf("%d whole-variable stores in init", n)
	}
	set := map[ssa.Instruction]bool{}
	var addV func(v ssa.Value)
	addV = func(v ssa.Value) {
		in, ok := v.(ssa.Instruction)
		if !ok || set[in] || in.Parent() != init {
			return
		}
		set[in] = true
		for _, op := range in.Operands(nil) {
			if *op != nil {
				addV(*op)
			}
		}
		// a map literal: the updates that fill it
		if mm, ok := v.(*ssa.MakeMap); ok {
			if refs := mm.Referrers(); refs != nil {
				for _, r := range *refs {
					if mu, ok := r.(*ssa.MapUpdate); ok && mu.Map == ssa.Value(mm) {
						set[mu] = true
						addV(mu.Key)
						addV(mu.Value)
					}
				}
			}
		}
		// memory the value is read from: stores into allocs (composite literals) it refers to
		if a, ok := v.(*ssa.Alloc); ok {
			var viaAddr func(addr ssa.Value)
			viaAddr = func(addr ssa.Value) {
				refs := addr.Referrers()
				if refs == nil {
					return
				}
				for _, r := range *refs {
					switch t := r.(type) {
					case *ssa.Store:
						if t.Addr == addr {
							set[t] = true
							addV(t.Val)
						}
					case *ssa.FieldAddr:
						if t.X == addr {
							set[t] = true
							viaAddr(t)
						}
					case *ssa.IndexAddr:
						if t.X == addr {
							set[t] = true
							addV(t.Index)
							viaAddr(t)
						}
					}
				}
			}
			viaAddr(a)
		}
	}
	addV(stop.Val)
	env := &absEnv{globals: map[string]*aobj{}, noFork: true, maxSteps: 200000, sliceFn: init, sliceSet: set, sliceStop: stop, ext: ext}
	res, und := env.run(init, nil)
	return res, und
}

var globalDepth int

// assignedOutsideInit: some function other than the package initialiser stores into the variable (it is not a constant).
func assignedOutsideInit(g *ssa.Global) bool {
	found := false
	for _, m := range g.Pkg.Members {
		f, ok := m.(*ssa.Function)
		if !ok || f.Name() == "init" {
			continue
		}
		for _, fn := range withClosures(f) {
			allInstrs(fn, func(in ssa.Instruction) {
				if st, ok := in.(*ssa.Store); ok && rootOf(st.Addr) == ssa.Value(g) {
					found = true
				}
			})
		}
	}
	return found
}

// runFunc evaluates a function value (a closure obtained from an earlier evaluation) on args.
func (e *absEnv) runFunc(f afunc, args []aval) (res aval, undecided string) {
	defer func() {
		if r := recover(); r != nil {
			if a, ok := r.(absAbort); ok {
				undecided = a.why
				return
			}
			undecided = fmt.Sprintf("the abstract evaluator could not handle a construct (%v)", r)
		}
	}()
	if e.maxSteps == 0 {
		e.maxSteps = 20000
	}
	return e.call(f.fn, args, f.free, 0), ""
}

// callMethod invokes the named method on an interface value through the evaluator (for oracles that model a library
// routine calling back into module code, such as io.Copy writing to a module writer).
func (e *absEnv) callMethod(prog *ssa.Program, recv aval, name string, args ...aval) (res aval, ok bool) {
	ifc, isI := recv.(aiface)
	if !isI {
		return nil, false
	}
	sel := types.NewMethodSet(ifc.typ).Lookup(nil, name)
	if sel == nil {
		// unexported package not needed for exported method names; try the pointer type
		sel = types.NewMethodSet(types.NewPointer(ifc.typ)).Lookup(nil, name)
	}
	if sel == nil {
		return nil, false
	}
	m := prog.MethodValue(sel)
	if m == nil || len(m.Blocks) == 0 {
		return nil, false
	}
	defer func() {
		if r := recover(); r != nil {
			res, ok = nil, false
		}
	}()
	return e.call(m, append([]aval{ifc.val}, args...), nil, 1), true
}

// unsetField: what a hand-built configuration object answers for a field the table does not set: the zero value
// for plain settings (numbers, strings, flags: "nothing else is configured on it"), unknown for anything structured.
func unsetField(what, path string, t types.Type) aval {
	if _, ok := underlying(t).(*types.Basic); ok {
		return zeroOf(t)
	}
	return aunk{what + " " + path}
}

package main

import (
	"fmt"
	"go/types"
	"sort"
	"strings"
)

// c12R9: the error pages a site configures are the ones the handler will read.  errorsParse is evaluated (E10) on
// an errors block whose pages are written as a name, a path below the root, a path that leaves the root (pages kept
// beside the web root) and an absolute path (the file system being an oracle in which every file opens); what is
// stored for each status must be the written path resolved against the site root the way the operating system
// resolves it — rooted paths as they are, relative ones joined to the root, `..` taken literally.
func c12R9(h H) {
	r := h.r
	r.Rule("R9", "configured error pages, as a table (E10) of errorsParse: for `errors { 404 404.html ⏎ 403 errors/403.html ⏎ 500 ../pages/500.html ⏎ * /abs/generic.html }` on a site rooted at /srv/site the handler is left with 404→/srv/site/404.html, 403→/srv/site/errors/403.html, 500→/srv/pages/500.html and the generic page /abs/generic.html; a status written twice is refused", 1)
	fn := h.fn("R9", "caskethttp/errors", "errorsParse")
	if fn == nil {
		return
	}
	ctlT := fn.Params[0].Type().(*types.Pointer).Elem()
	var cfgT types.Type = types.Typ[types.Int]
	if g := h.p.Func(hs, "GetConfig"); g != nil {
		if p, ok := g.Signature.Results().At(0).Type().(*types.Pointer); ok {
			cfgT = p.Elem()
		}
	}
	run := func(lines [][]string) (pages map[string]string, generic string, rejected bool, und string) {
		c := mkController(ctlT, lines)
		if c == nil {
			return nil, "", false, "casket.Controller: embedded dispenser not found"
		}
		cfg := &aobj{name: "siteconfig", typ: cfgT, f: map[string]aval{"Root": astr("/srv/site")}}
		cfg.in = func(o *aobj, path string, t types.Type) aval { return aunk{"site config field " + path} }
		env := &absEnv{globals: map[string]*aobj{}, noFork: true, maxSteps: 400000}
		env.ext = func(callee string, args []aval) (aval, bool) {
			switch {
			case strings.HasSuffix(callee, "httpserver.GetConfig"):
				return aptr{cfg, ""}, true
			case callee == "os.Open":
				return atuple{aptr{&aobj{name: "file", typ: types.Typ[types.Int], f: map[string]aval{}}, ""}, anil{}}, true
			case callee == "os.Stat":
				return atuple{aiface{aptr{&aobj{name: "info", typ: types.Typ[types.Int], f: map[string]aval{}}, ""}, types.Typ[types.Int]}, anil{}}, true
			case callee == "(*os.File).Close":
				return anil{}, true
			case callee == "log.Printf":
				return atuple{}, true
			case strings.HasSuffix(callee, "httpserver.IsLogRollerSubdirective"):
				return abool(false), true
			case strings.HasSuffix(callee, "httpserver.DefaultLogRoller"):
				return aptr{&aobj{name: "log roller", typ: types.Typ[types.Int], f: map[string]aval{}}, ""}, true
			}
			return nil, false
		}
		res, u := env.run(fn, []aval{aptr{c, ""}})
		if u != "" {
			return nil, "", false, u
		}
		tp, ok := res.(atuple)
		if !ok || len(tp) != 2 {
			return nil, "", false, "errorsParse returns " + describeAval(res)
		}
		if _, isNil := tp[1].(anil); !isNil {
			return nil, "", true, ""
		}
		hp, ok := tp[0].(aptr)
		if !ok {
			return nil, "", false, "the handler is " + describeAval(tp[0])
		}
		pages = map[string]string{}
		if m, ok := env.load(hp.obj, joinPath(hp.path, "ErrorPages")).(amap); ok {
			for k, v := range m.m.vals {
				pages[strings.TrimPrefix(k, "i:")] = describeAval(v)
			}
		}
		g, _ := env.load(hp.obj, joinPath(hp.path, "GenericErrorPage")).(astr)
		return pages, string(g), false, ""
	}
	bad := ""
	pages, generic, rejected, und := run([][]string{{"errors", "{"}, {"404", "404.html"}, {"403", "errors/403.html"}, {"500", "../pages/500.html"}, {"*", "/abs/generic.html"}, {"}"}})
	text := "`errors { 404 404.html ⏎ 403 errors/403.html ⏎ 500 ../pages/500.html ⏎ * /abs/generic.html }` with root /srv/site"
	want := map[string]string{"404": `"/srv/site/404.html"`, "403": `"/srv/site/errors/403.html"`, "500": `"/srv/pages/500.html"`}
	switch {
	case und != "":
		bad = text + ": undecided — " + und
	case rejected:
		bad = text + ": rejected"
	default:
		var ks []string
		for k, v := range pages {
			ks = append(ks, k+"→"+v)
		}
		sort.Strings(ks)
		for k, w := range want {
			got := ""
			for pk, pv := range pages {
				if strings.HasSuffix(pk, k) {
					got = pv
				}
			}
			if got != w && bad == "" {
				bad = fmt.Sprintf("%s: the page for status %s is %s, the configuration says %s (stored: %s)", text, k, got, w, strings.Join(ks, ", "))
			}
		}
		if generic != "/abs/generic.html" && bad == "" {
			bad = fmt.Sprintf("%s: the generic page is %q", text, generic)
		}
		if len(pages) != len(want) && bad == "" {
			bad = fmt.Sprintf("%s: %d pages stored: %s", text, len(pages), strings.Join(ks, ", "))
		}
	}
	if bad == "" {
		if _, _, rejected, und := run([][]string{{"errors", "{"}, {"404", "a.html"}, {"404", "b.html"}, {"}"}}); und != "" || !rejected {
			bad = "`errors { 404 a.html ⏎ 404 b.html }`: a status configured twice is accepted " + und
		}
	}
	r.Check(bad == "", "R9", "errors.errorsParse/pages-as-written", fn.Pos(), "every configured error page is the written path resolved against the site root", bad)
}

// c12R10: a handler that has begun the response reports no error status.  The handlers above a terminal handler
// (errors, the server's fallback, gzip's) answer a returned status of 400 and more themselves — with an error page
// and a header of their own.  fastcgi.Handler.ServeHTTP is evaluated (E10, the table of C19 R4) for an exchange that
// succeeds and whose body relay then fails (the client went away, the responder died mid-body): the header has been
// written once, and the handler returns a status below 400 with the error.
func c12R10(h H) {
	r := h.r
	r.Rule("R10", "a begun response is not answered a second time, as a table (E10) of fastcgi.Handler.ServeHTTP: with the responder's header relayed and the body copy failing, the handler returns a status below 400 (and the error), so that no handler above writes an error page and a second header into the response", 1)
	fn := h.fn("R10", fcPkg, "Handler.ServeHTTP")
	if fn == nil {
		return
	}
	bad, n := fcgiExchangeTable(h, fn, []fcgiCase{{"a complete response whose body then cannot be relayed", "full", "", 0, true}})
	r.Check(bad == "" && n == 1, "R10", "fastcgi.Handler.ServeHTTP/no-error-status-after-the-header", fn.Pos(), "once the responder's header is written the handler reports errors without a status", sprintf("%d exchange evaluated", n), bad)
}

// c12R11: the errors handler answers an error status once.  errorPage writes the configured page or falls back on the
// plain text answer; both commit the header.  ErrorHandler.errorPage is evaluated (E10; the file system, the response
// writer, io.Copy and the plain-text fallback are oracles that count header commits) for a configured page that cannot
// be opened, that is a directory, that is copied completely and whose copy fails half way, and for a status without a
// page: in every case the header is committed exactly once.
func c12R11(h H) {
	r := h.r
	r.Rule("R11", "the error page is committed once, as a table (E10) of errors.ErrorHandler.errorPage over {no page configured; page cannot be opened; page is a directory; page copied; copy fails after the header}: exactly one call commits the response header (ResponseWriter.WriteHeader or the plain-text fallback) in every case", 1)
	fn := h.fn("R11", "caskethttp/errors", "ErrorHandler.errorPage")
	if fn == nil {
		return
	}
	ehT := fn.Params[0].Type()
	reqT := derefType(fn.Params[2].Type())
	var pagesT *types.Map
	if st, ok := underlying(ehT).(*types.Struct); ok {
		for i := 0; i < st.NumFields(); i++ {
			if m, ok := underlying(st.Field(i).Type()).(*types.Map); ok && st.Field(i).Name() == "ErrorPages" {
				pagesT = m
			}
		}
	}
	hdrT, _ := types.Unalias(h.p.typeByName("net/http", "Header")).Underlying().(*types.Map)
	if pagesT == nil || hdrT == nil {
		r.Unresolve("R11", "errors.ErrorHandler.ErrorPages / http.Header not found")
		return
	}
	type cs struct {
		name                                    string
		configured, openFails, isDir, copyFails bool
	}
	cases := []cs{
		{"no page configured for the status", false, false, false, false},
		{"the page cannot be opened", true, true, false, false},
		{"the page is a directory", true, false, true, false},
		{"the page is copied completely", true, false, false, false},
		{"the copy fails after the header was written", true, false, false, true},
	}
	bad, n := "", 0
	for _, c := range cases {
		mk := func(name string) *aobj { return &aobj{name: name, typ: types.Typ[types.Int], f: map[string]aval{}} }
		commits := 0
		env := &absEnv{globals: map[string]*aobj{}, noFork: true, maxSteps: 100000}
		env.ext = func(callee string, args []aval) (aval, bool) {
			switch {
			case callee == "os.Open":
				if c.openFails {
					return atuple{anil{}, aiface{aptr{mk("open error"), ""}, types.Typ[types.Int]}}, true
				}
				return atuple{aptr{mk("page file"), ""}, anil{}}, true
			case callee == "(*os.File).Stat":
				return atuple{aiface{aptr{mk("file info"), ""}, types.Typ[types.Int]}, anil{}}, true
			case callee == "invoke:IsDir":
				return abool(c.isDir), true
			case callee == "(*os.File).Close":
				return anil{}, true
			case callee == "mime.TypeByExtension":
				return astr("text/html"), true
			case callee == "invoke:Header":
				return amap{&amapData{vals: map[string]aval{}, keys: map[string]aval{}, typ: hdrT}}, true
			case callee == "invoke:WriteHeader":
				commits++
				return atuple{}, true
			case callee == "io.Copy":
				if c.copyFails || c.isDir {
					return atuple{aint(0), aiface{aptr{mk("read error"), ""}, types.Typ[types.Int]}}, true
				}
				return atuple{aint(10), anil{}}, true
			case strings.HasSuffix(callee, "httpserver.DefaultErrorFunc"), strings.HasSuffix(callee, "httpserver.WriteTextResponse"):
				commits++
				return atuple{}, true
			case callee == "invoke:Printf", callee == "(*net/url.URL).String", strings.HasSuffix(callee, "Logger).Printf"):
				if strings.HasSuffix(callee, "String") {
					return astr("/x"), true
				}
				return atuple{}, true
			}
			return nil, false
		}
		pages := amap{&amapData{vals: map[string]aval{}, keys: map[string]aval{}, typ: pagesT}}
		if c.configured {
			pages.m.vals["i:404"] = astr("/srv/404.html")
			pages.m.keys["i:404"] = aint(404)
		}
		eh := astruct{map[string]aval{"ErrorPages": pages, "GenericErrorPage": astr(""), "Log": aptr{mk("logger"), ""}, "Debug": abool(false)}}
		url := &aobj{name: "url", typ: types.Typ[types.Int], f: map[string]aval{}}
		req := &aobj{name: "request", typ: reqT, f: map[string]aval{"URL": aptr{url, ""}}}
		req.in = func(o *aobj, path string, t types.Type) aval { return aunk{"request field " + path} }
		_, und := env.run(fn, []aval{eh, aiface{aptr{mk("writer"), ""}, types.Typ[types.Int]}, aptr{req, ""}, aint(404)})
		n++
		if und != "" {
			bad = c.name + ": undecided — " + und
			break
		}
		if commits != 1 {
			bad = fmt.Sprintf("%s: the response header is committed %d times, specification says once", c.name, commits)
			break
		}
	}
	r.Check(bad == "", "R11", "errors.ErrorHandler.errorPage/commits-once", fn.Pos(), "one committing call per case", fmt.Sprintf("%d cases evaluated", n), bad)
}

package main

import (
	"fmt"
	"go/token"
	"go/types"
	"strings"

	"golang.org/x/tools/go/ssa"
)

func init() {
	register("C10", &propSpec{
		technique: "static analysis: panic-freedom obligations over the parser (compiler prove pass + guard prover + premise-checked exceptions), loop-progress analysis (every CFG cycle passes a token-consuming call or has a verified ranking function), structure checks of the import-cycle guard and of line counting; decision table of Dispenser.Next (E10)",
		run:       runC10,
		decided: "R1 every index, slice, division, unchecked assertion and explicit panic reachable from Parse is shown safe (the lexer's panic on a non-EOF read error is the one named exception); " +
			"R2 every loop reachable from Parse either consumes a token / a rune on every cycle or has a ranking function whose decrease is proved; " +
			"R3 import expansion is bounded: the splice of imported tokens is preceded by a cycle check that compares the sources being imported with the sources of every enclosing import, the enclosing frames are updated in place, and the new frame is recorded; " +
			"R4 environment replacement strictly shrinks the unsearched suffix on every iteration; " +
			"R5 every consumed rune that can be a line break passes the line counter; R6 the cursor protocol: Next() (decision table over token lists 0-3 and every cursor) advances and returns true exactly when a further token exists, constructors start at -1, the cursor moves back only right after a successful advance. Since round 4: R7 replaceEnvVars as a table (several references, unset, unterminated, empty, self-referring values). Since round 5: R8 inline = snippet = imported file, as a table of parseAll on 44 token-list configurations (snippets first/middle/last/only, nested, beginning with an import, inside a sub-block, on the brace line; files of directives, of whole blocks, of addresses): same keys and per-directive argument texts. Since round 6: R8 with expected results for repeated directives, multi-line tokens and environment values (one known finding: a value holding a line break); R9 the lexer rune by rune (blanks, tabs, CRLF, BOM, comments, quotes, escapes). Since round 7: R9 the empty text (an empty imported file) has no tokens and is no error. Since round 8: R10 the parser package writes no package-level state outside its initialisers (a reload parses from scratch). R4 environment expansion also as a table of replaceEnvVars (values containing references, also their own).",
		notDecided: "print-then-parse round trip for generated structure and layouts (the R8 table is a finite set of configurations at token level, below the lexer); quoting and escapes.",
	})
}

const cfPkg = "casketfile"

var advancing = map[string]string{
	"Next": "consumes a token", "NextArg": "consumes a token", "NextLine": "consumes a token", "NextBlock": "consumes a token", "NextBlockNesting": "consumes a token",
	"nextOnSameLine": "consumes a token", "ReadRune": "consumes a rune", "next": "lexer: consumes runes up to the next token",
	"doImport": "replaces the import directive by its expansion (bounded by R3's cycle check)",
	"Scan":     "bufio.Scanner: consumes a line",
}

func isAdvancingCall(in ssa.Instruction) bool {
	if _, isNext := in.(*ssa.Next); isNext {
		return true // range over a string, map or channel: one element per iteration
	}
	c := callOf(in)
	if c == nil {
		return false
	}
	name := ""
	if c.IsInvoke() {
		name = c.Method.Name()
	} else if f := c.StaticCallee(); f != nil {
		name = f.Name()
	}
	_, ok := advancing[name]
	return ok
}

func c10Scope(h H) []*ssa.Function {
	parse := h.fn("R1", cfPkg, "Parse")
	if parse == nil {
		return nil
	}
	res := h.p.reachable([]*ssa.Function{parse}, reachOpts{})
	var out []*ssa.Function
	for f := range res.Funcs {
		if pk := fnPkg(f); pk != nil && strings.HasSuffix(pk.Path(), "/casketfile") && len(f.Blocks) > 0 {
			out = append(out, f)
		}
	}
	// the dispenser API used by every directive setup
	for _, fn := range h.p.PkgFuncs(cfPkg) {
		if fn.Signature.Recv() != nil && strings.Contains(fn.Signature.Recv().Type().String(), "Dispenser") {
			dup := false
			for _, o := range out {
				if o == fn {
					dup = true
				}
			}
			if !dup {
				out = append(out, fn)
			}
		}
	}
	return out
}

var nextTrue = "guard:(*casketfile.Dispenser).Next(p.Dispenser)=true"

var c10Exceptions = map[string]e5Exception{
	"(*casketfile.parser).directive|index:p.tokens[p.cursor]#2":   {"inside `for p.Next()`: Next()==true leaves 0 <= cursor < len(tokens) (R6 checks Next's body); no cursor write lies between the loop test and this site except the rewinds that continue/break", []string{nextTrue}},
	"(*casketfile.parser).directive|index:p.tokens[p.cursor]#3":   {"as above", []string{nextTrue}},
	"(*casketfile.parser).directive|index:p.tokens[p.cursor]#4":   {"as above", []string{nextTrue}},
	"(*casketfile.parser).snippetTokens|index:p.tokens[p.cursor]": {"inside `for p.Next()`: Next()==true leaves 0 <= cursor < len(tokens) (R6)", []string{nextTrue}},
	"(*casketfile.parser).directive|index:p.tokens[p.cursor]":     {"directive() is entered only from directives(), inside `for p.Next()`, with the cursor on the directive's own token", []string{"only-caller:(*casketfile.parser).directives"}},
	"(*casketfile.parser).doImport|slice:p.tokens[:p.cursor-1]":   {"doImport is entered with the cursor on the `import` token (cursor >= 0, established by Next()==true in both callers); the successful NextArg() moved it to the argument: 1 <= cursor < len(tokens)", []string{"guard:(*casketfile.Dispenser).NextArg(p.Dispenser)=true"}},
	"(*casketfile.parser).doImport|slice:p.tokens[p.cursor+1:]":   {"as above: cursor < len(tokens), so cursor+1 <= len(tokens)", []string{"guard:(*casketfile.Dispenser).NextArg(p.Dispenser)=true"}},
	"(*casketfile.lexer).next|panic":                              {"reached only for a non-EOF error of the underlying reader; Parse wraps its input, and the property quantifies over input texts, for which the reader never fails", nil},
}

func runC10(r *Report, p *Program) {
	h := H{r, p}
	r.Rule("R1", "panic-freedom of the parser: obligations over every function of package casketfile reachable from Parse, plus the Dispenser methods; discharged by cmd/compile's prove pass, the guard prover, or a premise-checked exception", 20)
	scope := c10Scope(h)
	if len(scope) < 20 {
		r.Unresolve("R1", sprintf("only %d functions in the parser scope", len(scope)))
	}
	st := e5Check(h, "R1", scope, c10Exceptions)
	r.Extra["c10_e5"] = st
	loopProgress(h, "R2", scope, 8)
	c10R3(h)
	c10R4(h)
	c10R5(h)
	c10R6(h)
	c10R7(h)
	c10R8(h)
	c10R9(h)
	c10R10(h)
}

// c10R6: the cursor protocol that the parser's exceptions rest on.
func c10R6(h H) {
	r := h.r
	r.Rule("R6", "cursor protocol: Dispenser.Next, evaluated (E10) for every token list of length 0-3 (0-8 in the thorough tier) and every cursor position, advances by one and returns true exactly when a further token exists (so Next()==true implies cursor < len(tokens)); the Dispenser constructors start the cursor at -1; every decrement of the cursor lies directly behind a successful Next/NextArg/NextLine/nextOnSameLine, a successful doImport, or the openCurlyBrace test", 5)
	// Next as a decision table (E10): token lists of length 0–3, cursor anywhere from -1 to len
	if nx := h.fn("R6", cfPkg, "(*Dispenser).Next"); nx != nil {
		dT := nx.Params[0].Type().(*types.Pointer).Elem()
		var tokT types.Type = types.Typ[types.Int]
		if st, ok := underlying(dT).(*types.Struct); ok {
			for k := 0; k < st.NumFields(); k++ {
				if st.Field(k).Name() == "tokens" {
					tokT = underlying(st.Field(k).Type()).(*types.Slice).Elem()
				}
			}
		}
		bad, nrun := "", 0
		for n := 0; n <= tb(3, 8) && bad == ""; n++ {
			for cur := -1; cur <= n && bad == ""; cur++ {
				var toks []aval
				for k := 0; k < n; k++ {
					toks = append(toks, astruct{map[string]aval{"File": astr("f"), "Line": aint(int64(k + 1)), "Text": astr(fmt.Sprintf("t%d", k))}})
				}
				d := &aobj{name: "dispenser", typ: dT, f: map[string]aval{"cursor": aint(int64(cur)), "tokens": newVals(toks, tokT), "nesting": aint(0), "filename": astr("f")}}
				env := &absEnv{globals: map[string]*aobj{}, noFork: true, maxSteps: 20000}
				res, und := env.run(nx, []aval{aptr{d, ""}})
				nrun++
				b, ok := res.(abool)
				after, _ := env.load(d, "cursor").(aint)
				want := cur < n-1
				wantCur := cur
				if want {
					wantCur = cur + 1
				}
				if und != "" || !ok || bool(b) != want || int(after) != wantCur {
					bad = fmt.Sprintf("%d tokens, cursor %d: Next() = %s leaving the cursor at %d; specification: %v with the cursor at %d %s", n, cur, describeAval(res), after, want, wantCur, und)
				}
			}
		}
		r.Check(bad == "", "R6", "casketfile.(*Dispenser).Next/true-implies-cursor-in-range", nx.Pos(), "Next() advances the cursor by one and returns true exactly when a further token exists, and otherwise leaves it alone and returns false — so Next()==true implies cursor < len(tokens)", fmt.Sprintf("%d evaluations", nrun), bad)
	}
	// constructors
	ctorOK, nc := true, 0
	for _, fn := range h.p.PkgFuncs(cfPkg) {
		allInstrs(fn, func(in ssa.Instruction) {
			st, ok := in.(*ssa.Store)
			if !ok {
				return
			}
			fa, ok := st.Addr.(*ssa.FieldAddr)
			if !ok || fieldName(fa.X.Type(), fa.Field) != "cursor" {
				return
			}
			if _, fresh := rootOf(fa).(*ssa.Alloc); !fresh {
				return
			}
			if strings.HasPrefix(fn.Name(), "New") {
				nc++
				if c, ok := constInt(st.Val); !ok || c != -1 {
					ctorOK = false
				}
			}
		})
	}
	r.Check(ctorOK && nc >= 1, "R6", "casketfile.NewDispenser*/cursor-starts-at-minus-one", token.NoPos, "a fresh dispenser has not loaded any token yet")
	// decrements
	nd := 0
	for _, fn := range h.p.PkgFuncs(cfPkg) {
		allInstrs(fn, func(in ssa.Instruction) {
			st, ok := in.(*ssa.Store)
			if !ok {
				return
			}
			fa, ok := st.Addr.(*ssa.FieldAddr)
			if !ok || fieldName(fa.X.Type(), fa.Field) != "cursor" {
				return
			}
			b, ok := st.Val.(*ssa.BinOp)
			if !ok || b.Op != token.SUB {
				return
			}
			nd++
			// preceded, with no other cursor write in between, by a successful advancing call or doImport
			okPrev := false
			for _, g := range guardAtoms(fn, nil, in) {
				if c, ok := g.Cond.(*ssa.Call); ok && g.Pos {
					if f := c.Call.StaticCallee(); f != nil && (f.Name() == "Next" || f.Name() == "NextArg" || f.Name() == "NextLine" || f.Name() == "nextOnSameLine") {
						okPrev = true
					}
				}
				if x, nilWhenTrue, ok := nilCmp(g.Cond); ok && nilWhenTrue == g.Pos {
					if c, ok := x.(*ssa.Call); ok && c.Call.StaticCallee() != nil && (c.Call.StaticCallee().Name() == "doImport" || c.Call.StaticCallee().Name() == "openCurlyBrace") {
						okPrev = true
					}
				}
				if x, nilWhenTrue, ok := nilCmp(g.Cond); ok && nilWhenTrue != g.Pos {
					if c, ok := x.(*ssa.Call); ok && c.Call.StaticCallee() != nil && c.Call.StaticCallee().Name() == "openCurlyBrace" {
						okPrev = true
					}
				}
			}
			r.Check(okPrev, "R6", sprintf("%s/cursor-rewind#%d", shortFunc(fn), nd), in.Pos(), "the cursor is moved back only right after it was successfully advanced (or after an import replaced the tokens under it)")
		})
	}
}

// loopProgress: every natural loop of the scope either has each of its cycles pass an
// advancing call, or has a verified ranking function.
func loopProgress(h H, rule string, scope []*ssa.Function, min int) {
	r := h.r
	r.Rule(rule, "loop progress: for every natural loop in scope, either every path from the loop header back to itself passes a call that consumes input (Next/NextArg/NextLine/NextBlock, ReadRune, lexer.next, Scanner.Scan, doImport), or a ranking function (bound − counter, len(s) − i, len(s)) is proved to be non-negative under the loop guards and to decrease by at least 1 on every back edge", min)
	for _, fn := range scope {
		k := 0
		for _, hd := range fn.Blocks {
			loop := naturalLoop(hd)
			if len(loop) == 0 {
				continue
			}
			k++
			construct := sprintf("%s/loop#%d", shortFunc(fn), k)
			first := firstInstr(hd)
			pos := first.Pos()
			for _, in := range hd.Instrs {
				if in.Pos().IsValid() {
					pos = in.Pos()
					break
				}
			}
			// (a) advancing call on every cycle
			cyc := false
			if isAdvancingCall(first) {
				r.Hold(rule, construct, pos, "every cycle of this loop consumes input")
				continue
			}
			reachWithin(fn, first, loop, func(in ssa.Instruction) bool { return isAdvancingCall(in) }, func(in ssa.Instruction) bool {
				if in == first {
					cyc = true
					return false
				}
				return true
			})
			if !cyc {
				r.Hold(rule, construct, pos, "every cycle of this loop consumes input")
				continue
			}
			// (b) ranking function
			if why, ok := hasRanking(fn, hd); ok {
				r.Hold(rule, construct, pos, "ranking function verified: "+why)
				continue
			}
			r.Fail(rule, construct, pos, "this loop can go around without consuming input and no ranking function could be verified: it may not terminate")
		}
	}
}

// reachWithin walks from start (exclusive) inside the loop's blocks, not passing stop instructions.
func reachWithin(fn *ssa.Function, start ssa.Instruction, loop map[*ssa.BasicBlock]bool, stop func(ssa.Instruction) bool, visit func(ssa.Instruction) bool) {
	seen := map[*ssa.BasicBlock]bool{}
	type item struct {
		b *ssa.BasicBlock
		i int
	}
	work := []item{{start.Block(), idxOf(start) + 1}}
	for len(work) > 0 {
		it := work[len(work)-1]
		work = work[:len(work)-1]
		blocked := false
		for i := it.i; i < len(it.b.Instrs); i++ {
			in := it.b.Instrs[i]
			if !visit(in) {
				return
			}
			if stop(in) {
				blocked = true
				break
			}
		}
		if blocked {
			continue
		}
		for _, s := range it.b.Succs {
			if !loop[s] {
				continue
			}
			if s == start.Block() {
				// back at the header
				if !visit(start) {
					return
				}
				continue
			}
			if !seen[s] {
				seen[s] = true
				work = append(work, item{s, 0})
			}
		}
	}
}

// hasRanking tries measure candidates built from the header's φs.
func hasRanking(fn *ssa.Function, hd *ssa.BasicBlock) (string, bool) {
	var intPhis, seqPhis []*ssa.Phi
	for _, in := range hd.Instrs {
		ph, ok := in.(*ssa.Phi)
		if !ok {
			break
		}
		if isIntType(ph.Type()) {
			intPhis = append(intPhis, ph)
		} else if isSeqType(ph.Type()) {
			seqPhis = append(seqPhis, ph)
		}
	}
	type measure struct {
		desc string
		f    func(p *prover) linExpr
	}
	var ms []measure
	// bound − i for header conditions i < bound, and i itself for i > c / i >= c
	if i, ok := lastInstr(hd).(*ssa.If); ok {
		if b, ok := i.Cond.(*ssa.BinOp); ok {
			x, y := b.X, b.Y
			switch b.Op {
			case token.LSS:
				ms = append(ms, measure{describe(y) + " − " + describe(x), func(p *prover) linExpr { return p.lin(y).add(p.lin(x), -1) }})
			case token.LEQ:
				ms = append(ms, measure{describe(y) + " − " + describe(x) + " + 1", func(p *prover) linExpr { return p.lin(y).add(p.lin(x), -1).add(newLin(1), 1) }})
			case token.GTR, token.GEQ, token.NEQ:
				ms = append(ms, measure{describe(x) + " − " + describe(y), func(p *prover) linExpr { return p.lin(x).add(p.lin(y), -1) }})
				if b.Op == token.NEQ {
					ms = append(ms, measure{describe(y) + " − " + describe(x), func(p *prover) linExpr { return p.lin(y).add(p.lin(x), -1) }})
				}
			}
		}
	}
	// rotated loops (range-over-int, do-while shapes): the continuation test sits on the back edge and compares the
	// next value of a header φ with a bound computed outside the loop — the measure is bound − φ
	loopBlocks := naturalLoop(hd)
	for e, pr := range hd.Preds {
		if !(pr == hd || hd.Dominates(pr)) {
			continue
		}
		i, ok := lastInstr(pr).(*ssa.If)
		if !ok {
			continue
		}
		b, ok := i.Cond.(*ssa.BinOp)
		if !ok || (b.Op != token.LSS && b.Op != token.LEQ) || pr.Succs[0] != hd {
			continue
		}
		if in, isIn := b.Y.(ssa.Instruction); isIn && loopBlocks[in.Block()] {
			continue
		}
		for _, ph := range intPhis {
			if ph.Edges[e] != b.X {
				continue
			}
			ph, y := ph, b.Y
			extra := int64(0)
			if b.Op == token.LEQ {
				extra = 1
			}
			ms = append(ms, measure{describe(y) + " − " + describe(ph), func(p *prover) linExpr { return p.lin(y).add(p.lin(ph), -1).add(newLin(extra), 1) }})
		}
	}
	for _, s := range seqPhis {
		s := s
		ms = append(ms, measure{"len(" + describe(s) + ")", func(p *prover) linExpr { return p.lenOf(s) }})
		for _, i := range intPhis {
			i := i
			ms = append(ms, measure{"len(" + describe(s) + ") − " + describe(i), func(p *prover) linExpr { return p.lenOf(s).add(p.lin(i), -1) }})
		}
	}
	var phis []*ssa.Phi
	phis = append(phis, intPhis...)
	phis = append(phis, seqPhis...)
	for _, in := range hd.Instrs {
		if ph, ok := in.(*ssa.Phi); ok {
			dup := false
			for _, q := range phis {
				if q == ph {
					dup = true
				}
			}
			if !dup {
				phis = append(phis, ph)
			}
		}
	}
	for _, m := range ms {
		ok := true
		any := false
		for e, pr := range hd.Preds {
			if !(pr == hd || hd.Dominates(pr)) {
				continue
			}
			any = true
			ctx := contextAtEdge(fn, pr, hd)
			for _, inv := range verifiedInvariants(fn, hd, nil) {
				ctx.fact(inv(ctx, nil))
			}
			cur := m.f(ctx)
			ctx.subst = map[ssa.Value]ssa.Value{}
			for _, ph := range phis {
				ctx.subst[ph] = ph.Edges[e]
			}
			next := m.f(ctx)
			ctx.subst = nil
			// cur − next − 1 >= 0  and cur >= 1 (so the measure is bounded below along the back edge)
			if !ctx.prove(cur.add(next, -1).add(newLin(1), -1)) || !ctx.prove(cur.add(newLin(1), -1)) {
				ok = false
				break
			}
		}
		if ok && any {
			return m.desc + " decreases on every back edge and is positive there", true
		}
	}
	return "", false
}

func isSeqType(t types.Type) bool {
	switch u := t.Underlying().(type) {
	case *types.Slice:
		return true
	case *types.Basic:
		return u.Info()&types.IsString != 0
	}
	return false
}

func c10R3(h H) {
	r := h.r
	r.Rule("R3", "bounded import expansion: in parser.doImport the store that splices the imported tokens into p.tokens is preceded on every path by (a) a loop that compares each source about to be imported with the recorded sources of every enclosing active import and returns an error on equality, (b) an in-place update of the enclosing frames' end positions (a store through an element address of the active slice, not into a copy), (c) a store recording the new frame in p.activeImports", 4)
	fn := h.fn("R3", cfPkg, "(*parser).doImport")
	if fn == nil {
		return
	}
	var splice ssa.Instruction
	allInstrs(fn, func(in ssa.Instruction) {
		if st, ok := in.(*ssa.Store); ok {
			if fa, ok := st.Addr.(*ssa.FieldAddr); ok && fieldName(fa.X.Type(), fa.Field) == "tokens" {
				splice = in
			}
		}
	})
	if splice == nil {
		r.Unresolve("R3", "doImport: splice store to p.tokens not found")
		return
	}
	// (a) error return under source equality
	var cycleRet ssa.Instruction
	for _, rt := range realReturns(fn) {
		res := retResults(rt)
		if c, isC := res[0].(*ssa.Const); isC && c.Value == nil {
			continue
		}
		for _, g := range guardAtoms(fn, nil, rt) {
			b, ok := g.Cond.(*ssa.BinOp)
			if !ok || b.Op != token.EQL || !g.Pos {
				continue
			}
			fromFrames := func(v ssa.Value) bool {
				return derives(v, func(x ssa.Value) bool { return readsField(x, "sources") }, flowOpts{})
			}
			if fromFrames(b.X) != fromFrames(b.Y) {
				cycleRet = rt
			}
		}
	}
	r.Check(cycleRet != nil, "R3", "casketfile.(*parser).doImport/cycle-check", splice.Pos(), "an import whose source is already being expanded (file or snippet importing itself, directly or indirectly) is refused with an error")
	if cycleRet != nil {
		// the splice is only reachable after the comparison loop ran: the loop over active frames is exhausted
		cmpBlockReached := mustPass(fn, splice, func(in ssa.Instruction) bool {
			i, ok := in.(*ssa.If)
			if !ok {
				return false
			}
			// header test of a loop whose body contains the cycle comparison
			l := naturalLoop(i.Block())
			if len(l) == 0 {
				return false
			}
			for b := range l {
				for _, x := range b.Instrs {
					if bo, ok := x.(*ssa.BinOp); ok && bo.Op == token.EQL {
						if derives(bo.X, func(v ssa.Value) bool { return readsField(v, "sources") }, flowOpts{}) || derives(bo.Y, func(v ssa.Value) bool { return readsField(v, "sources") }, flowOpts{}) {
							return true
						}
					}
				}
			}
			return false
		})
		r.Check(cmpBlockReached, "R3", "casketfile.(*parser).doImport/check-before-splice", splice.Pos(), "tokens are spliced in only after the cycle check has run")
	}
	// (b) in-place end update
	inPlace := false
	allInstrs(fn, func(in ssa.Instruction) {
		st, ok := in.(*ssa.Store)
		if !ok {
			return
		}
		fa, ok := st.Addr.(*ssa.FieldAddr)
		if !ok || fieldName(fa.X.Type(), fa.Field) != "end" {
			return
		}
		if _, isElem := fa.X.(*ssa.IndexAddr); !isElem {
			return
		}
		if b, ok := st.Val.(*ssa.BinOp); ok && b.Op == token.ADD && derives(b.Y, func(v ssa.Value) bool {
			c, ok := v.(*ssa.Call)
			return ok && calleeName(&c.Call) == "builtin.len"
		}, flowOpts{}) {
			if mustPass(fn, splice, func(x ssa.Instruction) bool {
				i, ok := x.(*ssa.If)
				return ok && len(naturalLoop(i.Block())) > 0 && naturalLoop(i.Block())[in.Block()]
			}) {
				inPlace = true
			}
		}
	})
	r.Check(inPlace, "R3", "casketfile.(*parser).doImport/enclosing-frames-updated-in-place", splice.Pos(), "the end position of every enclosing import is moved by the size of the expansion, in the slice itself (a stale end would drop the frame too early and hide a later cycle)")
	// (c) new frame recorded
	rec := false
	allInstrs(fn, func(in ssa.Instruction) {
		st, ok := in.(*ssa.Store)
		if !ok {
			return
		}
		fa, ok := st.Addr.(*ssa.FieldAddr)
		if !ok || fieldName(fa.X.Type(), fa.Field) != "activeImports" {
			return
		}
		if c, ok := st.Val.(*ssa.Call); ok && calleeName(&c.Call) == "builtin.append" && mustPass(fn, splice, func(x ssa.Instruction) bool { return x == in }) {
			rec = true
		}
	})
	r.Check(rec, "R3", "casketfile.(*parser).doImport/new-frame-recorded", splice.Pos(), "the import being expanded is recorded before its tokens are spliced in")
}

func c10R4(h H) {
	r := h.r
	r.Rule("R4", "environment replacement terminates: the loop of replaceEnvReferences has a verified ranking function (the length of the text still to be searched, len(s) − index, drops on every iteration); and, as a table (E10) of replaceEnvVars over eleven texts whose values contain references, also their own: it ends within the step budget with every written reference replaced once", 1)
	fn := h.p.Func(cfPkg, "replaceEnvReferences")
	if fn == nil {
		// the helper is gone (the expansion was rewritten): the table decides the clause from replaceEnvVars itself;
		// the new loops are R2's business like every other loop of the package
		if h.p.Func(cfPkg, "replaceEnvVars") == nil {
			r.Unresolve("R4", "casketfile: neither replaceEnvReferences nor replaceEnvVars found")
			return
		}
		c10R4Table(h)
		return
	}
	n := 0
	for _, hd := range fn.Blocks {
		if len(naturalLoop(hd)) == 0 {
			continue
		}
		n++
		why, ok := hasRanking(fn, hd)
		r.Check(ok, "R4", "casketfile.replaceEnvReferences/loop", firstPos(hd), "every substitution leaves strictly less text to search (a value containing its own reference cannot be expanded again)", why)
	}
	if n == 0 {
		r.Unresolve("R4", "replaceEnvReferences: no loop found")
	}
	c10R4Table(h)
}

// c10R4Table: the same clause decided from what the function computes (E10), whatever its loops look like:
// replaceEnvVars on texts whose values contain references — also their own — ends within the step budget with every
// written reference replaced once and nothing of an inserted value expanded again.
func c10R4Table(h H) {
	r := h.r
	fn := h.p.Func(cfPkg, "replaceEnvVars")
	if fn == nil {
		return // the loop rule above reports the missing anchor
	}
	env0 := map[string]string{"A": "v", "SELF": "{$SELF}", "WSELF": "x{%WSELF%}", "NEXT": "x{$B}", "B": "y", "EMPTY": ""}
	cases := []struct{ in, want string }{
		{"{$A}", "v"}, {"pre{$A}post", "prevpost"}, {"{%A%}", "v"}, {"{$A}{%A%}", "vv"},
		{"{$SELF}", "{$SELF}"}, {"{%WSELF%}", "x{%WSELF%}"}, {"{$NEXT}{$B}", "x{$B}y"},
		{"{$EMPTY}z", "z"}, {"{$UNSET}z", "z"}, {"{$A", "{$A"}, {"plain", "plain"},
	}
	bad, n := "", 0
	for _, c := range cases {
		env := &absEnv{globals: map[string]*aobj{}, noFork: true, maxSteps: 200000}
		env.ext = func(callee string, args []aval) (aval, bool) {
			if callee == "os.Getenv" {
				if k, ok := args[0].(astr); ok {
					return astr(env0[string(k)]), true
				}
			}
			return nil, false
		}
		res, und := env.run(fn, []aval{astr(c.in)})
		n++
		got, ok := res.(astr)
		switch {
		case und != "":
			bad = sprintf("replaceEnvVars(%q): undecided — %s (a value that contains a reference must not be expanded again: the loop would not end)", c.in, und)
		case !ok || string(got) != c.want:
			bad = sprintf("replaceEnvVars(%q) = %s, specification says %q (A=v, SELF={$SELF}, WSELF=x{%%WSELF%%}, NEXT=x{$B}, B=y)", c.in, describeAval(res), c.want)
		}
		if bad != "" {
			break
		}
	}
	r.Check(bad == "", "R4", "casketfile.replaceEnvVars/expansion-table", fn.Pos(), "every written reference is replaced once, values are not expanded again, and the replacement ends", sprintf("%d texts evaluated", n), bad)
}

func firstPos(b *ssa.BasicBlock) token.Pos {
	for _, in := range b.Instrs {
		if in.Pos().IsValid() {
			return in.Pos()
		}
	}
	return token.NoPos
}

func c10R5(h H) { lineCountingRule(h, "R5") }

// lineCountingRule: the lexer counts every line break it consumes (C10 R5; C09 registers the same obligations — the
// parser and the dispenser tell where a directive line ends from these numbers).
func lineCountingRule(h H, rule string) {
	r := h.r
	r.Rule(rule, "line counting: in lexer.next every path from a successful ReadRune to the next ReadRune or to a return passes a test of the rune against '\\n' — unless it takes an edge that excludes '\\n' (rune == another constant, !unicode.IsSpace) — and the equal-'\\n' edge passes an increment of lexer.line", 2)
	fn := h.fn(rule, cfPkg, "(*lexer).next")
	if fn == nil {
		return
	}
	var read ssa.Instruction
	allInstrs(fn, func(in ssa.Instruction) {
		if c := callOf(in); c != nil {
			if c.IsInvoke() && c.Method.Name() == "ReadRune" {
				read = in
			} else if f := c.StaticCallee(); f != nil && f.Name() == "ReadRune" {
				read = in
			}
		}
	})
	if read == nil {
		r.Unresolve(rule, "lexer.next: ReadRune call not found")
		return
	}
	isCh := func(v ssa.Value) bool {
		ex, ok := v.(*ssa.Extract)
		return ok && ex.Tuple == read.(ssa.Value) && ex.Index == 0
	}
	nlTests := map[ssa.Instruction]bool{}
	excl := map[edge]bool{}
	nlTrue := map[edge]bool{}
	for _, i := range ifs(fn) {
		v, flip := stripNot(i.Cond)
		if x, kind, c, ok := intCmp(v); ok && isCh(x) && (kind == "eq" || kind == "ne") {
			eqEdge := condEdge{i, (kind == "eq") != flip}.edge()
			if c == 10 {
				nlTests[i] = true
				nlTrue[eqEdge] = true
			} else {
				excl[eqEdge] = true
			}
		}
		if c, ok := v.(*ssa.Call); ok && calleeName(&c.Call) == "unicode.IsSpace" && isCh(c.Call.Args[0]) {
			excl[condEdge{i, flip}.edge()] = true // IsSpace false
		}
		if x, nilWhenTrue, ok := nilCmp(v); ok {
			if ex, isEx := x.(*ssa.Extract); isEx && ex.Tuple == read.(ssa.Value) && ex.Index == 2 {
				excl[condEdge{i, !nilWhenTrue != flip}.edge()] = true // err != nil
			}
		}
	}
	bad := ""
	reach(fn, read, cut{edges: excl, instr: func(in ssa.Instruction) bool { return nlTests[in] }}, func(in ssa.Instruction) bool {
		if in == read {
			bad = "next ReadRune"
			return false
		}
		if rt, ok := in.(*ssa.Return); ok && rt.Block() != fn.Recover {
			bad = "return at " + h.p.Pos(rt.Pos())
			return false
		}
		return true
	})
	r.Check(len(nlTests) > 0 && bad == "", rule, "casketfile.(*lexer).next/newline-test-unavoidable", read.Pos(), "no consumed rune can be a line break without being tested for it (in quoted, escaped, comment and plain state alike)", "reaches "+bad+" without a '\\n' test")
	inc := func(in ssa.Instruction) bool {
		st, ok := in.(*ssa.Store)
		if !ok {
			return false
		}
		fa, ok := st.Addr.(*ssa.FieldAddr)
		if !ok || fieldName(fa.X.Type(), fa.Field) != "line" {
			return false
		}
		b, ok := st.Val.(*ssa.BinOp)
		if !ok || b.Op != token.ADD {
			return false
		}
		c, okc := constInt(b.Y)
		return okc && c == 1 && readsField(b.X, "line")
	}
	okInc := len(nlTrue) > 0
	for e := range nlTrue {
		s := e.From.Succs[e.Idx]
		f := firstInstr(s)
		if f == nil {
			continue
		}
		if inc(f) {
			continue
		}
		missed := false
		reach(fn, f, cut{instr: inc}, func(in ssa.Instruction) bool {
			if in == read {
				missed = true
				return false
			}
			if _, ok := in.(*ssa.Return); ok {
				missed = true
				return false
			}
			return true
		})
		if missed {
			okInc = false
		}
	}
	r.Check(okInc, rule, "casketfile.(*lexer).next/newline-increments-line", read.Pos(), "every rune found to be '\\n' increments the line counter before the next rune is read")
}

package main

import (
	"fmt"
	"go/types"
	"strings"
)

// c01R8: "host matching ignores letter case and port" for hosts that are IP literals.  An IPv6 literal is written in
// brackets, with or without a port, both in a site address ([::1]:80, [::1]) and in the Host header; the server hands
// the trie the Host with its port stripped (::1) when there was one and as received ([::1]) when there was none.  The
// trie (Insert, Match, on concrete keys; net.SplitHostPort answered by the library itself) must file and find such a
// site under one name, and must find a catch-all written as [::] or [::]:port for hosts no site has, as it does for
// 0.0.0.0.
func c01R8(h H) {
	r := h.r
	r.Rule("R8", "IP-literal hosts, as a decision table (E10, concrete keys, the library's own net.SplitHostPort): a site inserted as [::1]:80, [::1], 127.0.0.1:80 or 127.0.0.1 is found for the lookups the server makes for Host [::1], [::1]:port (port stripped: ::1), 127.0.0.1 and 127.0.0.1:port, in any letter case of a zone-less literal; a site inserted as [::], [::]:8080, 0.0.0.0 or 0.0.0.0:8080 is found for a host no site has; and a different literal finds no site", 1)
	ins := h.fn("R8", hs, "(*vhostTrie).Insert")
	match := h.fn("R8", hs, "(*vhostTrie).Match")
	mk := h.fn("R8", hs, "newVHostTrie")
	if ins == nil || match == nil || mk == nil {
		return
	}
	siteT := ins.Params[2].Type().(*types.Pointer).Elem()
	type cs struct {
		site    string   // the key the site is inserted under (Address.VHost)
		lookups []string // host+path keys
		found   bool
	}
	cases := []cs{
		{"[::1]:80", []string{"[::1]/x", "::1/x", "[::1]:80/x"}, true},
		{"[::1]", []string{"[::1]/x", "::1/x", "[::1]:2015/"}, true},
		{"[2001:DB8::1]:80/app", []string{"[2001:db8::1]/app/x", "2001:db8::1/app"}, true},
		{"127.0.0.1:80", []string{"127.0.0.1/x", "127.0.0.1:80/x"}, true},
		{"127.0.0.1", []string{"127.0.0.1/x", "127.0.0.1:8080/x"}, true},
		{"[::1]:80", []string{"[::2]/x", "::2/x", "other.example/x"}, false},
		{"[::]:8080", []string{"other.example/x", "[::1]/x", "10.0.0.1/"}, true},
		{"[::]", []string{"other.example/x", "::1/x"}, true},
		{"0.0.0.0:8080", []string{"other.example/x", "[::1]/x"}, true},
		{"0.0.0.0", []string{"other.example/x"}, true},
	}
	bad, n := "", 0
	for _, c := range cases {
		if bad != "" {
			break
		}
		env := &absEnv{globals: map[string]*aobj{}, noFork: true, maxSteps: 200000}
		root, und := env.run(mk, nil)
		if und != "" {
			bad = "newVHostTrie: undecided — " + und
			break
		}
		site := &aobj{name: "site", typ: siteT, f: map[string]aval{}, in: func(o *aobj, path string, t types.Type) aval { return aunk{"site field " + path} }}
		if _, und := env.run(ins, []aval{root, astr(c.site), aptr{site, ""}}); und != "" {
			bad = "site " + c.site + ": Insert undecided — " + und
			break
		}
		for _, lk := range c.lookups {
			res, und := env.run(match, []aval{root, astr(lk)})
			n++
			if und != "" {
				bad = fmt.Sprintf("site %s, lookup %s: Match undecided — %s", c.site, lk, und)
				break
			}
			got := false
			if tp, ok := res.(atuple); ok && len(tp) == 2 {
				if p, ok := tp[0].(aptr); ok && p.obj == site {
					got = true
				}
			}
			if got != c.found {
				w := map[bool]string{true: "that site", false: "no site"}
				host := lk
				if i := strings.Index(lk, "/"); i >= 0 {
					host = lk[:i]
				}
				bad = fmt.Sprintf("a site with the address %s, a request whose host reaches the trie as %q (key %s): specification says %s, the trie returns %s", c.site, host, lk, w[c.found], w[got])
				break
			}
		}
	}
	r.Check(bad == "" && n > 20, "R8", "httpserver.(*vhostTrie)/ip-literal-table", match.Pos(), "sites whose host is an IP literal are filed and found under one name, with or without brackets and port", fmt.Sprintf("%d lookups evaluated", n), bad)
}

package main

import (
	"fmt"
	"go/types"
	"strings"
)

// c01R8: "host matching ignores letter case and port" for hosts that are IP literals.  An IPv6 literal is written in
// brackets, with or without a port, both in a site address ([::1]:80, [::1]) and in the Host header; the server hands
// the trie the Host with its port stripped (::1) when there was one and as received ([::1]) when there was none.  The
// trie (Insert, Match, on concrete keys; net.SplitHostPort answered by the library itself) must file and find such a
// site under one name, and must find a catch-all written as [::] or [::]:port for hosts no site has, as it does for
// 0.0.0.0.
func c01R8(h H) {
	r := h.r
	r.Rule("R8", "IP-literal hosts, as a decision table (E10, concrete keys, the library's own net.SplitHostPort): a site inserted as [::1]:80, [::1], 127.0.0.1:80 or 127.0.0.1 is found for the lookups the server makes for Host [::1], [::1]:port (port stripped: ::1), 127.0.0.1 and 127.0.0.1:port, in any letter case of a zone-less literal; a site inserted as [::], [::]:8080, 0.0.0.0 or 0.0.0.0:8080 is found for a host no site has; and a different literal finds no site", 1)
	ins := h.fn("R8", hs, "(*vhostTrie).Insert")
	match := h.fn("R8", hs, "(*vhostTrie).Match")
	mk := h.fn("R8", hs, "newVHostTrie")
	if ins == nil || match == nil || mk == nil {
		return
	}
	siteT := ins.Params[2].Type().(*types.Pointer).Elem()
	type cs struct {
		site    string   // the key the site is inserted under (Address.VHost)
		lookups []string // host+path keys
		found   bool
	}
	cases := []cs{
		{"[::1]:80", []string{"[::1]/x", "::1/x", "[::1]:80/x"}, true},
		{"[::1]", []string{"[::1]/x", "::1/x", "[::1]:2015/"}, true},
		{"[2001:DB8::1]:80/app", []string{"[2001:db8::1]/app/x", "2001:db8::1/app"}, true},
		{"127.0.0.1:80", []string{"127.0.0.1/x", "127.0.0.1:80/x"}, true},
		{"127.0.0.1", []string{"127.0.0.1/x", "127.0.0.1:8080/x"}, true},
		{"[::1]:80", []string{"[::2]/x", "::2/x", "other.example/x"}, false},
		{"[::]:8080", []string{"other.example/x", "[::1]/x", "10.0.0.1/"}, true},
		{"[::]", []string{"other.example/x", "::1/x"}, true},
		{"0.0.0.0:8080", []string{"other.example/x", "[::1]/x"}, true},
		{"0.0.0.0", []string{"other.example/x"}, true},
	}
	bad, n := "", 0
	for _, c := range cases {
		if bad != "" {
			break
		}
		env := &absEnv{globals: map[string]*aobj{}, noFork: true, maxSteps: 200000}
		root, und := env.run(mk, nil)
		if und != "" {
			bad = "newVHostTrie: undecided — " + und
			break
		}
		site := &aobj{name: "site", typ: siteT, f: map[string]aval{}, in: func(o *aobj, path string, t types.Type) aval { return aunk{"site field " + path} }}
		if _, und := env.run(ins, []aval{root, astr(c.site), aptr{site, ""}}); und != "" {
			bad = "site " + c.site + ": Insert undecided — " + und
			break
		}
		for _, lk := range c.lookups {
			res, und := env.run(match, []aval{root, astr(lk)})
			n++
			if und != "" {
				bad = fmt.Sprintf("site %s, lookup %s: Match undecided — %s", c.site, lk, und)
				break
			}
			got := false
			if tp, ok := res.(atuple); ok && len(tp) == 2 {
				if p, ok := tp[0].(aptr); ok && p.obj == site {
					got = true
				}
			}
			if got != c.found {
				w := map[bool]string{true: "that site", false: "no site"}
				host := lk
				if i := strings.Index(lk, "/"); i >= 0 {
					host = lk[:i]
				}
				bad = fmt.Sprintf("a site with the address %s, a request whose host reaches the trie as %q (key %s): specification says %s, the trie returns %s", c.site, host, lk, w[c.found], w[got])
				break
			}
		}
	}
	r.Check(bad == "" && n > 20, "R8", "httpserver.(*vhostTrie)/ip-literal-table", match.Pos(), "sites whose host is an IP literal are filed and found under one name, with or without brackets and port", fmt.Sprintf("%d lookups evaluated", n), bad)
}

// c01R9: a site is filed in the trie under the path prefix it was written with.  Request paths are matched byte-wise
// against the filed prefix, and Address.Normalize lower-cases Address.Path (unless CASE_SENSITIVE_PATH): the key must
// come from the address as written, not from the normalised path.  Address.VHost is evaluated (E10) on addresses whose
// normalised Path differs from the written one.
func c01R9(h H) {
	r := h.r
	r.Rule("R9", "sites are filed under the path they were written with, as a table (E10) of Address.VHost: for addresses with and without scheme, with port, with an upper-case letter in the path (whose normalised Path field is lower-case) the key is the written address without its scheme — host, port and path as written", 1)
	fn := h.fn("R9", hs, "Address.VHost")
	if fn == nil {
		return
	}
	cases := []struct{ original, host, port, path, want string }{
		{"demo.example:18080/Admin", "demo.example", "18080", "/admin", "demo.example:18080/Admin"},
		{"http://demo.example:18080/Admin/Panel", "demo.example", "18080", "/admin/panel", "demo.example:18080/Admin/Panel"},
		{"https://other.example/Docs", "other.example", "443", "/docs", "other.example/Docs"},
		{"plain.example", "plain.example", "", "", "plain.example"},
		{"http://plain.example:80/lower", "plain.example", "80", "/lower", "plain.example:80/lower"},
	}
	bad, n := "", 0
	for _, c := range cases {
		env := &absEnv{globals: map[string]*aobj{}, noFork: true, maxSteps: 20000}
		a := astruct{map[string]aval{"Original": astr(c.original), "Scheme": astr(""), "Host": astr(c.host), "Port": astr(c.port), "Path": astr(c.path)}}
		res, und := env.run(fn, []aval{a})
		n++
		got, ok := res.(astr)
		switch {
		case und != "":
			bad = sprintf("address %q: undecided — %s", c.original, und)
		case !ok || string(got) != c.want:
			bad = sprintf("address %q (normalised path %q): filed under %s, specification says %q — request paths are matched byte-wise, a prefix in another letter case is never found", c.original, c.path, describeAval(res), c.want)
		}
		if bad != "" {
			break
		}
	}
	r.Check(bad == "", "R9", "httpserver.Address.VHost/key-as-written", fn.Pos(), "the trie key of a site is its address as written, without the scheme", sprintf("%d addresses evaluated", n), bad)
}

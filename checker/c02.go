package main

import (
	"go/token"
	"go/types"
	"strings"

	"golang.org/x/tools/go/ssa"
)

func init() {
	register("C02", &propSpec{
		technique: "static analysis: module call-graph who-may-open check, SSA typestate (open → IsHidden-false edge → sink), guard-edge dominance for redirects; decision table of FileServer.serveFile against a modelled file system (hidden files, abstract evaluation E10)",
		run:       runC02,
		decided: "R1 the file-serving handlers reach the disk only through the jailed http.FileSystem (no os/ioutil/filepath file access reachable from their ServeHTTP without going through Next), and every FileServer is rooted at http.Dir; " +
			"R2 every file that can reach a content sink (ServeContent or any other call given the opened file, a listing entry, an archive member) is tested with IsHidden on its own FileInfo and the sink lies on the not-hidden edge, and the file server's decision table (serveFile evaluated against a modelled file system: hidden file, offered and refused codings, existing and hidden siblings) never hands a hidden file to ServeContent and serves a precompressed sibling only in a coding the client accepts; " +
			"R3 every redirect issued by these handlers targets a copy of the request URL whose path had leading '//' stripped; " +
			"R4 the Casketfile is added to the hidden list by a parsing callback registered on the root directive. Since round 4: R3 for the file server as a table of serveFile (directory without and file with trailing slash, one to three leading slashes): the redirect target is the same path with exactly one leading slash. Since round 5: R5 the listing table of Browse.loadDirectoryContents: for /, //, /./, /sub/../ and /sub/ the listing names the ordinary entries and never a hidden one (IsHidden answering from the hide list of the value it is asked on). R6 trimPathPrefix as a table with net/url's real functions as the oracle: whatever follows the prefix (//evil.com/dir included) the stripped URL has no host and keeps path and query. Since round 6: R7 the archive walk callback: a hidden directory answers filepath.SkipDir. Since round 7: the sibling table also has siblings that are directories; the archive callback is found and driven whether it is a closure or a method value on a carrier struct.",
		notDecided: "correctness of http.Dir's own path cleaning (stdlib, trusted); symlinks leaving the root; os.SameFile semantics; that only regular files are served.",
	})
}

const (
	sfPkg = "caskethttp/staticfiles"
	brPkg = "caskethttp/browse"
)

var forbiddenFileAPIs = map[string]bool{
	"os.Open": true, "os.OpenFile": true, "os.ReadFile": true, "os.Stat": true, "os.Lstat": true, "os.ReadDir": true, "os.Create": true,
	"io/ioutil.ReadFile": true, "io/ioutil.ReadDir": true, "path/filepath.Walk": true, "path/filepath.WalkDir": true, "path/filepath.Glob": true,
	"os.DirFS": true, "os.Readlink": true, "path/filepath.EvalSymlinks": true,
}

func isHandlerIface(t types.Type) bool {
	return strings.HasSuffix(t.String(), "caskethttp/httpserver.Handler")
}

func runC02(r *Report, p *Program) {
	h := H{r, p}
	c02R1(h)
	c02R2(h)
	c02R3(h)
	c02R4(h)
	c02R5(h)
	c02R6(h)
	c02R7(h)
}

func c02R1(h H) {
	r := h.r
	r.Rule("R1", "jail / who-may-open: from FileServer.ServeHTTP and Browse.ServeHTTP (not following Next.ServeHTTP) no reachable module function calls os.Open/OpenFile/ReadFile/Stat/Lstat/ReadDir, ioutil.ReadFile/ReadDir, filepath.Walk*/Glob/EvalSymlinks; every value stored into a FileServer.Root field is an http.Dir", 4)
	var roots []*ssa.Function
	for _, spec := range [][2]string{{sfPkg, "FileServer.ServeHTTP"}, {brPkg, "Browse.ServeHTTP"}} {
		if f := h.fn("R1", spec[0], spec[1]); f != nil {
			roots = append(roots, f)
		}
	}
	if len(roots) == 0 {
		return
	}
	res := h.p.reachable(roots, reachOpts{skipInvoke: func(c *ssa.CallCommon) bool { return isHandlerIface(c.Value.Type()) && c.Method.Name() == "ServeHTTP" }})
	bad := 0
	for name, sites := range res.External {
		if forbiddenFileAPIs[name] {
			for _, s := range sites {
				bad++
				r.Fail("R1", shortFunc(s.Parent())+"/"+name, s.Pos(), "file-serving path reaches the disk outside the jailed http.FileSystem via "+name)
			}
		}
	}
	r.Check(bad == 0, "R1", "file-serving-call-graph/no-raw-file-access", roots[0].Pos(),
		"no raw file API reachable from the file-serving handlers", sprintf("%d module functions reachable, %d distinct external callees, %d unresolved dynamic calls", len(res.Funcs), len(res.External), res.Unresolved))
	r.Extra["c02_reachable_functions"] = len(res.Funcs)
	// jailed filesystem is used at all (positive control: the rule sees Open invokes)
	opens := 0
	for f := range res.Funcs {
		allInstrs(f, func(in ssa.Instruction) {
			if c := callOf(in); c != nil && c.IsInvoke() && c.Method.Name() == "Open" && strings.HasSuffix(c.Value.Type().String(), "net/http.FileSystem") {
				opens++
			}
		})
	}
	r.Check(opens >= 5, "R1", "file-serving-call-graph/jailed-opens-seen", roots[0].Pos(), "the analysis sees the jailed Open calls it reasons about", sprintf("%d invokes of http.FileSystem.Open", opens))
	// Root fields
	n := 0
	for _, fn := range h.p.ModFuncs() {
		allInstrs(fn, func(in ssa.Instruction) {
			st, ok := in.(*ssa.Store)
			if !ok {
				return
			}
			fa, ok := st.Addr.(*ssa.FieldAddr)
			if !ok || fieldName(fa.X.Type(), fa.Field) != "Root" {
				return
			}
			if !strings.HasSuffix(strings.TrimPrefix(fa.X.Type().String(), "*"), "staticfiles.FileServer") {
				return
			}
			n++
			okDir := false
			if mi, ok := st.Val.(*ssa.MakeInterface); ok && mi.X.Type().String() == "net/http.Dir" {
				okDir = true
			}
			r.Check(okDir, "R1", shortFunc(fn)+"/FileServer.Root", st.Pos(), "FileServer.Root is an http.Dir (jailed) file system", describe(st.Val))
		})
	}
	if n < 2 {
		r.Unresolve("R1", "fewer than 2 stores to FileServer.Root found")
	}
}

// isJailedOpen: invoke of Open on an http.FileSystem.
func isJailedOpen(v ssa.Value) *ssa.Call {
	ex, ok := v.(*ssa.Extract)
	if !ok || ex.Index != 0 {
		return nil
	}
	c, ok := ex.Tuple.(*ssa.Call)
	if !ok || !c.Call.IsInvoke() || c.Call.Method.Name() != "Open" || !strings.HasSuffix(c.Call.Value.Type().String(), "net/http.FileSystem") {
		return nil
	}
	return c
}

func isHiddenCall(in ssa.Instruction) *ssa.Call {
	c, ok := in.(*ssa.Call)
	if !ok {
		return nil
	}
	isIt := func(f *ssa.Function) bool {
		if f == nil {
			return false
		}
		if f.Name() == "IsHidden" && strings.Contains(funcName(f), "staticfiles.FileServer") {
			return true
		}
		// the bound-method wrapper of a method value fs.IsHidden
		if f.Synthetic != "" && strings.HasPrefix(f.Name(), "IsHidden$bound") {
			for _, in := range callsToNamed(f, "IsHidden") {
				if g := callOf(in).StaticCallee(); g != nil && strings.Contains(funcName(g), "staticfiles.FileServer") {
					return true
				}
			}
		}
		return false
	}
	if isIt(c.Call.StaticCallee()) {
		return c
	}
	// a call through a function-typed struct field that is only ever given the method value fs.IsHidden
	if ld, ok := c.Call.Value.(*ssa.UnOp); ok && !c.Call.IsInvoke() {
		if fa, ok := ld.X.(*ssa.FieldAddr); ok && theProgram != nil {
			n, okAll := 0, true
			for _, fn := range theProgram.ModFuncs() {
				allInstrs(fn, func(x ssa.Instruction) {
					st, isSt := x.(*ssa.Store)
					if !isSt {
						return
					}
					fa2, isFA := st.Addr.(*ssa.FieldAddr)
					if !isFA || fa2.Field != fa.Field || !types.Identical(fa2.X.Type(), fa.X.Type()) {
						return
					}
					n++
					mc, isMC := st.Val.(*ssa.MakeClosure)
					if !isMC {
						okAll = false
						return
					}
					if g, _ := mc.Fn.(*ssa.Function); !isIt(g) {
						okAll = false
					}
				})
			}
			if n > 0 && okAll {
				return c
			}
		}
	}
	return nil
}

// callsToNamed: call instructions in f whose static callee has the given name.
func callsToNamed(f *ssa.Function, name string) []ssa.Instruction {
	var out []ssa.Instruction
	allInstrs(f, func(in ssa.Instruction) {
		if c := callOf(in); c != nil {
			if g := c.StaticCallee(); g != nil && g.Name() == name {
				out = append(out, in)
			}
		}
	})
	return out
}

// hiddenFalseEdges: edges on which IsHidden(x) returned false, for IsHidden calls whose argument satisfies argOK.
func hiddenFalseEdges(fn *ssa.Function, argOK func(ssa.Value) bool) (map[edge]bool, []string) {
	var descs []string
	e := guardEdges(fn, false, func(v ssa.Value) bool {
		c, ok := v.(*ssa.Call)
		if !ok || isHiddenCall(c) == nil {
			return false
		}
		arg := c.Call.Args[len(c.Call.Args)-1]
		if argOK(arg) {
			descs = append(descs, describe(c))
			return true
		}
		return false
	})
	return e, descs
}

func c02R2(h H) { c02HiddenRule(h, "R2") }

// c02HiddenRule registers the hidden-file obligations under the given rule id (C02 R2; C03 uses the same obligations
// for paths made internal, which the internal directive puts on the hide list).
func c02HiddenRule(h H, rule string) {
	r := h.r
	r.Rule(rule, "hidden-file typestate: in package staticfiles every jailed Open whose file is handed to any call other than its own Close/Stat/Readdir/Seek (a content sink such as http.ServeContent) has an IsHidden test on a FileInfo derived from that same Open, and either the sink, or every control-flow edge on which that file becomes the one served, is reachable only through the test's false edge; in browse, listing entries and archive members are produced only on the false edge of IsHidden applied to the entry itself", 5)
	// --- staticfiles: generic
	sinkCount := 0
	for _, fn := range h.p.PkgFuncs(sfPkg) {
		// collect opens
		type openInfo struct {
			call *ssa.Call
			file ssa.Value
		}
		var opens []openInfo
		allInstrs(fn, func(in ssa.Instruction) {
			if ex, ok := in.(*ssa.Extract); ok {
				if c := isJailedOpen(ex); c != nil {
					opens = append(opens, openInfo{c, ex})
				}
			}
		})
		if len(opens) == 0 {
			continue
		}
		// sinks: calls with an argument that derives (through φ/interface conversions only) from an open's file
		allInstrs(fn, func(in ssa.Instruction) {
			c := callOf(in)
			if c == nil {
				return
			}
			if _, isDefer := in.(*ssa.Defer); isDefer {
				return
			}
			args := c.Args
			if c.IsInvoke() {
				// receiver is c.Value; methods on the file itself are not sinks
			} else if sig := c.Signature(); sig != nil && sig.Recv() != nil && len(args) > 0 {
				args = args[1:]
			}
			for _, a := range args {
				for _, o := range opens {
					if !derivesPlain(a, o.file) {
						continue
					}
					sinkCount++
					checkHiddenGuard(h, rule, fn, in, a, o.call, o.file)
				}
			}
		})
	}
	if sinkCount < 3 {
		r.Unresolve(rule, sprintf("staticfiles: only %d (open → sink) flows found; expected the main file, the index page and the precompressed sibling reaching http.ServeContent", sinkCount))
	}
	// --- browse: listing entries
	if fn := h.fn(rule, brPkg, "directoryListing"); fn != nil {
		n := 0
		allInstrs(fn, func(in ssa.Instruction) {
			c, ok := in.(*ssa.Call)
			if !ok || calleeName(&c.Call) != "builtin.append" {
				return
			}
			if !strings.Contains(c.Type().String(), "browse.FileInfo") {
				return
			}
			n++
			// the entry: the range element the appended struct is built from
			edges, descs := hiddenFalseEdges(fn, func(arg ssa.Value) bool {
				// same element: the appended entry is built from the very value that was tested
				return derives(c.Call.Args[1], func(v ssa.Value) bool { return v == arg }, flowOpts{throughCalls: true})
			})
			r.Check(onlyVia(fn, c, edges), rule, "browse.directoryListing/listing-entry", c.Pos(),
				"a directory entry is listed only on the false edge of IsHidden applied to that entry", descs...)
		})
		if n == 0 {
			r.Unresolve(rule, "browse.directoryListing: no append of browse.FileInfo found")
		}
	}
	// --- staticfiles: the same clause decided from what serveFile does (E10 file-server table)
	{
		t := fileServerTable(h)
		var pos token.Pos
		if fn := h.p.Func(sfPkg, "FileServer.serveFile"); fn != nil {
			pos = fn.Pos()
		}
		r.Check(t.hidden == "" && t.other == "", rule, "staticfiles.FileServer.serveFile/hidden-table", pos,
			"evaluated against a modelled file system for every combination of hidden file, offered codings, existing and hidden siblings: a file on the hide list is never handed to http.ServeContent — not as the requested file (404) and not as its precompressed variant", sprintf("%d cases evaluated", t.cases), t.hidden, t.other)
		r.Check(t.sibling == "" && t.other == "", rule, "staticfiles.FileServer.serveFile/accepted-sibling-table", pos,
			"in the same table: what is handed to http.ServeContent is the requested file or its precompressed sibling in a coding the client offered and did not refuse (q=0)", sprintf("%d cases evaluated", t.cases), t.sibling, t.other)
	}
	// --- browse: archive members
	if fn := h.fn(rule, brPkg, "Browse.ServeArchive"); fn != nil {
		n := 0
		for _, g := range withHelpers(fn, 3) {
			allInstrs(g, func(in ssa.Instruction) {
				c := callOf(in)
				if c == nil || !c.IsInvoke() || c.Method.Name() != "Write" || !strings.Contains(c.Value.Type().String(), "archiver") {
					return
				}
				n++
				edges, descs := hiddenFalseEdges(g, func(arg ssa.Value) bool {
					_, isParam := arg.(*ssa.Parameter)
					return isParam && derives(c.Args[0], func(v ssa.Value) bool { return v == arg }, flowOpts{throughCalls: true})
				})
				r.Check(onlyVia(g, in, edges), rule, shortFunc(g)+"/archive-member", in.Pos(),
					"a file is written to the archive only on the false edge of IsHidden applied to the walked entry's own FileInfo", descs...)
			})
		}
		if n == 0 {
			r.Unresolve(rule, "browse.ServeArchive: no archiver.Writer.Write invoke found")
		}
	}
}

// derivesPlain: v is target or reaches it through φ / interface conversions only.
func derivesPlain(v, target ssa.Value) bool {
	seen := map[ssa.Value]bool{}
	var walk func(ssa.Value) bool
	walk = func(v ssa.Value) bool {
		if v == target {
			return true
		}
		if v == nil || seen[v] {
			return false
		}
		seen[v] = true
		switch t := v.(type) {
		case *ssa.Phi:
			for _, e := range t.Edges {
				if walk(e) {
					return true
				}
			}
		case *ssa.MakeInterface:
			return walk(t.X)
		case *ssa.ChangeInterface:
			return walk(t.X)
		case *ssa.ChangeType:
			return walk(t.X)
		case *ssa.TypeAssert:
			return walk(t.X)
		case *ssa.UnOp:
			if a, ok := t.X.(*ssa.Alloc); ok {
				for _, s := range storesTo(a) {
					if walk(s) {
						return true
					}
				}
			}
		}
		return false
	}
	return walk(v)
}

// shareSource: some parameter/range element/extract is a flow source of both values.
func shareSource(a, b ssa.Value) bool {
	src := map[ssa.Value]bool{}
	derives(b, func(v ssa.Value) bool {
		switch v.(type) {
		case *ssa.Parameter, *ssa.Extract, *ssa.Next, *ssa.UnOp, *ssa.Index:
			src[v] = true
		}
		return false
	}, flowOpts{throughCalls: true})
	delete(src, nil)
	return derives(a, func(v ssa.Value) bool { return src[v] && !isConstLike(v) }, flowOpts{throughCalls: true})
}

func isConstLike(v ssa.Value) bool {
	_, ok := v.(*ssa.Const)
	return ok
}

func checkHiddenGuard(h H, rule string, fn *ssa.Function, sink ssa.Instruction, arg ssa.Value, open *ssa.Call, file ssa.Value) {
	r := h.r
	construct := shortFunc(fn) + "/open:" + openKind(open.Call.Args[0]) + "→" + shortCallee(sink)
	fromOpen := func(x ssa.Value) bool {
		return derives(x, func(v ssa.Value) bool { return v == file }, flowOpts{throughCalls: true})
	}
	edges, descs := hiddenFalseEdges(fn, fromOpen)
	if len(edges) == 0 {
		r.Fail(rule, construct, sink.Pos(), "the file opened at "+h.p.Pos(open.Pos())+" reaches this sink but no IsHidden test is applied to a FileInfo of that file")
		return
	}
	if onlyVia(fn, sink, edges) {
		r.Hold(rule, construct, sink.Pos(), "sink reachable only through the not-hidden edge of IsHidden on this file's FileInfo", descs...)
		return
	}
	// otherwise every φ edge on which this open's file enters the flow to the sink must be guarded
	okAll := true
	found := false
	seen := map[ssa.Value]bool{}
	var walk func(v ssa.Value)
	walk = func(v ssa.Value) {
		if seen[v] {
			return
		}
		seen[v] = true
		switch t := v.(type) {
		case *ssa.Phi:
			for k, e := range t.Edges {
				if stripIface(e) == file {
					found = true
					pred := t.Block().Preds[k]
					term := pred.Instrs[len(pred.Instrs)-1]
					if !onlyVia(fn, term, edges) {
						okAll = false
					}
				} else {
					walk(e)
				}
			}
		case *ssa.MakeInterface:
			walk(t.X)
		case *ssa.ChangeInterface:
			walk(t.X)
		}
	}
	walk(arg)
	if found && okAll {
		r.Hold(rule, construct, sink.Pos(), "every edge on which this file becomes the one handed to the sink lies behind the not-hidden edge of IsHidden on its FileInfo", descs...)
		return
	}
	r.Fail(rule, construct, sink.Pos(), "the file opened at "+h.p.Pos(open.Pos())+" can reach this sink on a path that does not pass the not-hidden edge of IsHidden on its own FileInfo", descs...)
}

func stripIface(v ssa.Value) ssa.Value {
	for {
		switch t := v.(type) {
		case *ssa.MakeInterface:
			v = t.X
		case *ssa.ChangeInterface:
			v = t.X
		default:
			return v
		}
	}
}

func shortCallee(in ssa.Instruction) string {
	c := callOf(in)
	if c == nil {
		return "?"
	}
	if c.IsInvoke() {
		return c.Method.Name()
	}
	if f := c.StaticCallee(); f != nil {
		return shortFunc(f)
	}
	return calleeName(c)
}

func c02R3(h H) {
	r := h.r
	r.Rule("R3", "redirects stay on-origin: every http.Redirect in staticfiles/browse takes (*url.URL).String() of a local URL value as its target and is reachable only through the false edge of strings.HasPrefix(<that URL>.Path, \"//\") (the '//'-stripping loop); for the file server the same is decided as a table of serveFile (E10)", 2)
	n := 0
	// the file server's redirects are decided from what serveFile does (E10 table); the pattern below remains for
	// browse, and for the file server only to name a site when the table fails
	tblBad, tblN := fileRedirectTable(h)
	if fn := h.p.Func(sfPkg, "FileServer.serveFile"); fn != nil {
		r.Check(tblBad == "", "R3", "staticfiles.FileServer.serveFile/redirect-table", fn.Pos(), "a directory requested without trailing slash and a file requested with one are redirected to the same path with the slash added or removed and exactly one leading slash, for request paths starting with one, two or three slashes", sprintf("%d cases evaluated", tblN), tblBad)
	}
	for _, fn := range h.p.PkgFuncs(sfPkg, brPkg) {
		if tblBad == "" && fn.Pkg != nil && strings.HasSuffix(fn.Pkg.Pkg.Path(), sfPkg) {
			continue
		}
		for k, c := range findCalls(fn, func(in ssa.Instruction) bool { return isCallTo(in, "net/http.Redirect") }) {
			n++
			construct := sprintf("%s/redirect#%d", shortFunc(fn), k+1)
			target := callOf(c).Args[2]
			tc, ok := target.(*ssa.Call)
			if !ok {
				// the target may have travelled through a merge (a helper's result, a flag-and-value pair): take the
				// value that is feasible at the redirect
				if vs := valuesAt(fn, target, c); len(vs) == 1 {
					if c2, isCall := vs[0].(*ssa.Call); isCall {
						tc, ok, target = c2, true, vs[0]
					}
				}
			}
			if !ok || calleeName(&tc.Call) != "(*net/url.URL).String" {
				r.Fail("R3", construct, c.Pos(), "redirect target is not the String() of a URL value", describe(target))
				continue
			}
			urlRoot := rootOf(tc.Call.Args[0])
			edges := guardEdges(fn, false, func(v ssa.Value) bool {
				hc, ok := v.(*ssa.Call)
				if !ok || calleeName(&hc.Call) != "strings.HasPrefix" {
					return false
				}
				if s, ok := constString(hc.Call.Args[1]); !ok || s != "//" {
					return false
				}
				p, root := fieldPath(hc.Call.Args[0])
				return p == "Path" && root == urlRoot
			})
			held := onlyVia(fn, c, edges)
			if !held {
				// value form of the same argument: the '//'-stripping ran on a local copy of the path; then every
				// store into <URL>.Path that can be the last one before the redirect must store (a value extended
				// only at its end from) a string v with the false edge of strings.HasPrefix(v, "//") dominating it
				isPathStore := func(in ssa.Instruction) bool {
					st, ok := in.(*ssa.Store)
					if !ok {
						return false
					}
					p, root := fieldPath(st.Addr)
					return p == "Path" && root == urlRoot
				}
				var stores []*ssa.Store
				allInstrs(fn, func(in ssa.Instruction) {
					if isPathStore(in) {
						stores = append(stores, in.(*ssa.Store))
					}
				})
				nLast, okAll := 0, true
				for _, st := range stores {
					if !canReach(fn, st, c, cut{instr: func(in ssa.Instruction) bool { return in != ssa.Instruction(st) && isPathStore(in) }}) {
						continue
					}
					nLast++
					base := st.Val
					at := ssa.Instruction(st)
					for {
						if b, ok := base.(*ssa.BinOp); ok && b.Op == token.ADD {
							if _, isC := constString(b.Y); isC {
								base = b.X
								continue
							}
						}
						// a re-load of <URL>.Path: continue from the store it reads (same block, nothing in between)
						if ld, ok := base.(*ssa.UnOp); ok && ld.Op == token.MUL {
							if p, root := fieldPath(ld.X); p == "Path" && root == urlRoot {
								var prev *ssa.Store
								for _, in := range ld.Block().Instrs {
									if in == ssa.Instruction(ld) {
										break
									}
									if isPathStore(in) {
										prev = in.(*ssa.Store)
									}
								}
								if prev != nil {
									base, at = prev.Val, prev
									continue
								}
							}
						}
						break
					}
					ve := guardEdges(fn, false, func(v ssa.Value) bool {
						hc, ok := v.(*ssa.Call)
						if !ok || calleeName(&hc.Call) != "strings.HasPrefix" {
							return false
						}
						if s, ok := constString(hc.Call.Args[1]); !ok || s != "//" {
							return false
						}
						return hc.Call.Args[0] == base
					})
					if !onlyVia(fn, at, ve) {
						okAll = false
					}
				}
				// no path may reach the redirect without any such store
				viaStore := !canReach(fn, nil, c, cut{instr: isPathStore})
				held = nLast > 0 && okAll && viaStore
			}
			r.Check(held, "R3", construct, c.Pos(),
				"the redirect is issued only after the target path no longer starts with '//' (otherwise Location: //host/… leaves the origin)", describe(target))
		}
	}
	if n == 0 {
		r.Unresolve("R3", "no http.Redirect call found in browse")
	}
}

func c02R4(h H) {
	r := h.r
	r.Rule("R4", "the Casketfile is hidden: hideCasketfile is registered as a parsing callback of server type http after directive root, and appends to SiteConfig.HiddenFiles", 2)
	hide := h.fn("R4", hs, "hideCasketfile")
	if hide == nil {
		return
	}
	found := false
	for _, fn := range h.p.PkgFuncs(hs) {
		for _, c := range findCalls(fn, func(in ssa.Instruction) bool { return isCallTo(in, modPath+".RegisterParsingCallback") }) {
			args := callOf(c).Args
			if fv, ok := args[2].(*ssa.Function); ok && fv == hide || derives(args[2], func(v ssa.Value) bool { return v == ssa.Value(hide) }, flowOpts{}) {
				found = true
				st, _ := constString(args[0])
				dir, _ := constString(args[1])
				r.Check(st == "http" && dir == "root", "R4", "httpserver.init/RegisterParsingCallback(hideCasketfile)", c.Pos(), "hideCasketfile runs after the root directive of server type http", st, dir)
			}
		}
	}
	if !found {
		r.Fail("R4", "httpserver.init/RegisterParsingCallback(hideCasketfile)", hide.Pos(), "hideCasketfile is not registered as a parsing callback: the Casketfile would be served like any file")
	}
	// appends to HiddenFiles
	app := false
	allInstrs(hide, func(in ssa.Instruction) {
		if st, ok := in.(*ssa.Store); ok {
			if fa, ok := st.Addr.(*ssa.FieldAddr); ok && fieldName(fa.X.Type(), fa.Field) == "HiddenFiles" {
				app = true
			}
		}
	})
	r.Check(app, "R4", "httpserver.hideCasketfile/HiddenFiles-store", hide.Pos(), "hideCasketfile stores into SiteConfig.HiddenFiles")
}

// openKind gives a refactor-stable label for the path argument of a jailed Open.
func openKind(arg ssa.Value) string {
	if pth, root := fieldPath(arg); pth == "URL.Path" {
		if _, isParam := root.(*ssa.Parameter); isParam {
			return "request-path"
		}
	}
	if _, isParam := arg.(*ssa.Parameter); isParam {
		return "param:" + arg.Name()
	}
	isExt := func(v ssa.Value) bool {
		if readsField(v, "ext") {
			return true
		}
		g, ok := v.(*ssa.Global)
		return ok && g.Name() == "staticEncodingPriority"
	}
	switch {
	case derives(arg, isExt, flowOpts{throughCalls: true}):
		return "precompressed-sibling"
	case derives(arg, func(v ssa.Value) bool { return readsField(v, "IndexPages") }, flowOpts{throughCalls: true}):
		return "index-page"
	case derives(arg, func(v ssa.Value) bool { return readsField(v, "URL.Path") }, flowOpts{throughCalls: true}):
		return "derived-from-request-path"
	}
	return "other"
}

package main

import (
	"go/ast"
	"go/constant"
	"go/token"
	"go/types"
	"os"
	"strings"

	"golang.org/x/tools/go/ssa"
)

func init() {
	register("C04", &propSpec{
		technique: "static analysis: constant-table agreement (hop-by-hop set), must-pass ordering on the SSA CFG, copy-on-write and per-iteration re-derivation of the outgoing request in the retry loop; decision table of createUpstreamRequest (copy-on-write, hop-by-hop removal, X-Forwarded-For) by abstract evaluation (E10)",
		run:       runC04,
		decided: "R1 the hop-by-hop table contains the RFC 7230 set and both directions delete the Connection-named tokens before, and the table entries in, a loop over that same table; " +
			"R2 inside the retry loop URL and header of the outgoing request are re-derived from pristine snapshots in every iteration before anything that mutates them; " +
			"R3 the buffered body is rewound in every iteration before the forward call, and buffering is decided by exactly {non-zero try duration}; " +
			"R4 the backend status is written unmodified, the Trailer announcement precedes WriteHeader, the body copy precedes the trailer copy; " +
			"R5 the decision table of createUpstreamRequest (Request.WithContext modelled as the shallow copy it is; 48 cases over Connection header, prior X-Forwarded-For, parsable address, empty body; other headers unknown): the client's own header map is never modified, no hop-by-hop header and none named in Connection is forwarded while end-to-end headers are, X-Forwarded-For is the prior values followed by the client address, the body is nil exactly for an empty body. Since round 4: R6 configured header changes: parseBlock records every header_upstream/header_downstream line (repeated +Field lines all kept, per direction), mutateHeadersByRules appends / deletes / sets with one expansion. Since round 5: R2/R3 are decided along the proxy traces (Proxy.ServeHTTP evaluated with scripted backends: every attempt starts from the pristine URL, header and rewound body). R7 header rules from NewHost to their application in both directions. Since round 6: R5 with two Connection header lines; R7 through the code's own NewStaticUpstreams (plain / regex-only / mixed rules per direction); R3: buffered exactly when retries are enabled. Since round 7: R6 several rules on one field under both walks of the rule map, regex replacement on every line of a repeated field; R5 a hop-by-hop field whose first line is empty; R4 a flush precedes forced (unannounced) trailers. Since round 8: R8 copyHeader's copy shares no line slot with the original.",
		notDecided: "byte-for-byte equality of bodies; path joining arithmetic (singleJoiningSlash); header multiset equality — runtime relations.",
	})
}

const pxPkg = "caskethttp/proxy"

func runC04(r *Report, p *Program) {
	h := H{r, p}
	c04R1(h)
	c04R2(h)
	c04R3(h)
	c04R4(h)
	c04R5(h)
	c04R6(h)
	c04R7(h)
	c04R8(h)
}

// stringTable reads a package-level []string composite literal (constants resolved by go/types).
func (p *Program) stringTable(rel, name string) ([]string, token.Pos) {
	pk := p.ByPath[modPath+"/"+rel]
	if pk == nil {
		return nil, token.NoPos
	}
	for _, f := range pk.Syntax {
		for _, d := range f.Decls {
			gd, ok := d.(*ast.GenDecl)
			if !ok || gd.Tok != token.VAR {
				continue
			}
			for _, sp := range gd.Specs {
				vs := sp.(*ast.ValueSpec)
				for i, n := range vs.Names {
					if n.Name != name || i >= len(vs.Values) {
						continue
					}
					// the table is a constant of the program: a literal, or an expression over literals (groups joined
					// by a helper, appends) whose value the abstract evaluator computes from the package initialiser
					viaInit := func() ([]string, token.Pos) {
						v, und := evalGlobal(p, rel, name)
						if os.Getenv("VERIF_DEBUG") != "" {
							println("DEBUG evalGlobal", rel, name, describeAval(v), und)
						}
						sl, ok := v.(avals)
						if und != "" || !ok {
							return nil, n.Pos()
						}
						var out []string
						for _, c := range sl.cells {
							s, ok := c.f[""].(astr)
							if !ok {
								return nil, n.Pos()
							}
							out = append(out, string(s))
						}
						return out, n.Pos()
					}
					cl, ok := vs.Values[i].(*ast.CompositeLit)
					if !ok {
						return viaInit()
					}
					var out []string
					for _, e := range cl.Elts {
						tv, ok := pk.TypesInfo.Types[e]
						if !ok || tv.Value == nil || tv.Value.Kind() != constant.String {
							return viaInit()
						}
						out = append(out, constant.StringVal(tv.Value))
					}
					return out, n.Pos()
				}
			}
		}
	}
	return nil, token.NoPos
}

func isGlobalNamed(v ssa.Value, name string) bool {
	g, ok := v.(*ssa.Global)
	return ok && g.Name() == name
}

func c04R1(h H) {
	r := h.r
	r.Rule("R1", "hop-by-hop table and symmetric use: proxy.hopHeaders ⊇ {Connection, Keep-Alive, Proxy-Authenticate, Proxy-Authorization, Te, Trailer, Transfer-Encoding, Upgrade}; createUpstreamRequest (request side) and ReverseProxy.ServeHTTP (response side) each delete, from the message's header, every element of a loop over hopHeaders, and read the Connection header (whose tokens they delete) before that loop; on the response side the header_downstream update function is called after all of these deletions", 12)
	tab, pos := h.p.stringTable(pxPkg, "hopHeaders")
	if tab == nil {
		r.Unresolve("R1", "proxy.hopHeaders table not found as a constant []string literal")
	} else {
		have := map[string]bool{}
		for _, s := range tab {
			have[s] = true
		}
		for _, need := range []string{"Connection", "Keep-Alive", "Proxy-Authenticate", "Proxy-Authorization", "Te", "Trailer", "Transfer-Encoding", "Upgrade"} {
			r.Check(have[need], "R1", "proxy.hopHeaders/"+need, pos, "hop-by-hop header "+need+" is in the removal table (RFC 7230 §6.1)")
		}
	}
	for _, spec := range [][2]string{{"createUpstreamRequest", "request"}, {"(*ReverseProxy).ServeHTTP", "response"}} {
		fn := h.fn("R1", pxPkg, spec[0])
		if fn == nil {
			continue
		}
		key := "proxy." + spec[0] + "/" + spec[1]
		// Del calls whose key derives from the hopHeaders global
		var tableDels, tokenDels, connGets []ssa.Instruction
		allInstrs(fn, func(in ssa.Instruction) {
			// the header read as a map: h["Connection"] (every line of it)
			if lk, ok := in.(*ssa.Lookup); ok {
				if k, isK := constString(lk.Index); isK && k == "Connection" && strings.HasSuffix(lk.X.Type().String(), "http.Header") {
					connGets = append(connGets, in)
				}
				return
			}
			c := callOf(in)
			if c == nil || c.IsInvoke() {
				return
			}
			switch calleeName(c) {
			case "(net/http.Header).Values":
				if s, ok := constString(c.Args[1]); ok && s == "Connection" {
					connGets = append(connGets, in)
				}
			case "(net/http.Header).Del":
				if derives(c.Args[1], func(v ssa.Value) bool { return isGlobalNamed(v, "hopHeaders") }, flowOpts{}) {
					tableDels = append(tableDels, in)
				} else if derives(c.Args[1], func(v ssa.Value) bool {
					// a token of the Connection header's value, however it was cut out (Split, Cut, Index and slicing)
					if isResultOf(v, 0, "strings.Split") {
						return true
					}
					if lk, ok := v.(*ssa.Lookup); ok {
						k, isK := constString(lk.Index)
						return isK && k == "Connection" && strings.HasSuffix(lk.X.Type().String(), "http.Header")
					}
					if cc, ok := v.(*ssa.Call); ok && calleeName(&cc.Call) == "(net/http.Header).Values" {
						k, isK := constString(cc.Call.Args[1])
						return isK && k == "Connection"
					}
					if cc, ok := v.(*ssa.Call); ok && calleeName(&cc.Call) == "(net/http.Header).Get" {
						k, isK := constString(cc.Call.Args[1])
						return isK && k == "Connection"
					}
					return false
				}, flowOpts{throughCalls: true}) {
					tokenDels = append(tokenDels, in)
				}
			case "(net/http.Header).Get":
				if s, ok := constString(c.Args[1]); ok && s == "Connection" {
					connGets = append(connGets, in)
				}
			}
		})
		r.Check(len(tableDels) > 0, "R1", key+"/table-loop-deletes", fn.Pos(), "every hopHeaders element is deleted from the "+spec[1]+" header")
		r.Check(len(tokenDels) > 0 && len(connGets) > 0, "R1", key+"/connection-tokens-deleted", fn.Pos(), "headers named in Connection are deleted from the "+spec[1])
		for _, d := range tableDels {
			ok := len(connGets) > 0 && mustPass(fn, d, func(in ssa.Instruction) bool {
				for _, g := range connGets {
					if in == g {
						return true
					}
				}
				return false
			})
			r.Check(ok, "R1", key+"/connection-read-before-table-delete", d.Pos(), "the Connection header is read before the table loop deletes it (otherwise its tokens are lost)")
			// table deletion must not be conditional on anything but the loop and (request side) presence of the header
			_, loop := loopOf(d.Block())
			r.Check(loop != nil, "R1", key+"/table-delete-in-loop", d.Pos(), "the table deletion happens inside the loop over hopHeaders")
		}
		if spec[1] == "response" {
			// the operator's header_downstream rules are applied to what the client will receive: after the call
			// of the update function no hop-by-hop deletion can follow (a rule that sets a header named in the
			// table or in Connection would otherwise be undone, and the deletions would see the rules' output)
			upd := findCalls(fn, func(in ssa.Instruction) bool {
				c := callOf(in)
				if c == nil || c.IsInvoke() || c.StaticCallee() != nil {
					return false
				}
				return strings.HasSuffix(c.Value.Type().String(), "proxy.respUpdateFn")
			})
			if len(upd) == 0 {
				r.Unresolve("R1", "ReverseProxy.ServeHTTP: no call of the response update function")
			}
			for k, u := range upd {
				later := false
				reach(fn, u, cut{}, func(in ssa.Instruction) bool {
					for _, d := range append(append([]ssa.Instruction{}, tableDels...), tokenDels...) {
						if in == d {
							later = true
							return false
						}
					}
					return true
				})
				r.Check(!later, "R1", sprintf("%s/downstream-rules-after-hop-removal#%d", key, k+1), u.Pos(),
					"the configured header_downstream changes are applied after hop-by-hop removal, so they reach the client exactly as configured")
			}
		}
		// the token loop must not be skipped: guards of token deletion ⊆ {Connection != "", token != "", loop, copy flag}
	}
}

// headerMutation: a call that mutates an http.Header value (Set/Add/Del) or a map update on it;
// returns the header operand.
func headerMutation(in ssa.Instruction) (ssa.Value, bool) {
	switch t := in.(type) {
	case *ssa.MapUpdate:
		if strings.HasSuffix(t.Map.Type().String(), "net/http.Header") {
			return t.Map, true
		}
	case *ssa.Call:
		switch calleeName(&t.Call) {
		case "(net/http.Header).Set", "(net/http.Header).Add", "(net/http.Header).Del":
			return t.Call.Args[0], true
		}
	}
	return nil, false
}

// flagTrueEdges: edges on which a pure bool φ flag is true, for flags whose
// every true-source block is itself behind an instruction satisfying via.
func flagTrueEdges(fn *ssa.Function, via func(ssa.Instruction) bool) map[edge]bool {
	out := map[edge]bool{}
	for _, i := range ifs(fn) {
		v, flip := stripNot(i.Cond)
		if _, isPhi := v.(*ssa.Phi); !isPhi {
			continue
		}
		src, pure := trueSources(v)
		if !pure || len(src) == 0 {
			continue
		}
		all := true
		for _, b := range src {
			t := lastInstr(b)
			if t == nil || !mustPassIncl(fn, t, via) {
				all = false
			}
		}
		if all {
			out[condEdge{i, !flip}.edge()] = true
		}
	}
	return out
}

// mustPassIncl is mustPass where the target's own block prefix counts too.
func mustPassIncl(fn *ssa.Function, target ssa.Instruction, via func(ssa.Instruction) bool) bool {
	return !canReach(fn, nil, target, cut{instr: func(in ssa.Instruction) bool { return in != target && via(in) }})
}

// c04R2: decided from the traces of Proxy.ServeHTTP (E10): the oracle backend rewrites the URL path and adds a header,
// as the director and the header rules do; the next attempt must start from the pristine request again.  The
// loop-shape formulation (c04R2Patterns) is kept for reference and no longer registered.
func c04R2(h H) {
	r := h.r
	r.Rule("R2", "every attempt starts from the request as the client sent it (E10 proxy traces): with the oracle backend modifying the outgoing URL path and header during each attempt — what the director and the header_upstream rules do — every later attempt of the same request finds the pristine URL path and none of the added headers (createUpstreamRequest itself: see R5)", 1)
	t := proxyTraces(h)
	var pos token.Pos
	if fn := h.p.Func(pxPkg, "Proxy.ServeHTTP"); fn != nil {
		pos = fn.Pos()
	}
	r.Check(t.fresh == "" && t.other == "", "R2", "proxy.Proxy.ServeHTTP/retry-loop/attempts-start-pristine", pos, "director and header rules do not accumulate across retry attempts", sprintf("%d scripts evaluated", t.n), t.fresh, t.other)
}

func c04R2Patterns(h H) {
	r := h.r
	r.Rule("R2", "copy-on-write of the outgoing request (createUpstreamRequest: see R5): in Proxy.ServeHTTP's retry loop every iteration stores a fresh URL copy and a fresh header map into outreq before any call that receives outreq or its header, and those stores never install a shared value", 6)
	// createUpstreamRequest: decided by the table of R5 (the client's header map is never modified), which models
	// http.Request.WithContext as the shallow copy it is
	sv := h.fn("R2", pxPkg, "Proxy.ServeHTTP")
	if sv == nil {
		return
	}
	// the retry loop: contains the Select invoke
	var sel ssa.Instruction
	allInstrs(sv, func(in ssa.Instruction) {
		if c := callOf(in); c != nil && c.IsInvoke() && c.Method.Name() == "Select" {
			sel = in
		}
	})
	if sel == nil {
		r.Unresolve("R2", "Proxy.ServeHTTP: no Upstream.Select invoke")
		return
	}
	hd, loop := loopOf(sel.Block())
	if hd == nil {
		r.Unresolve("R2", "Proxy.ServeHTTP: Select is not inside a loop")
		return
	}
	isOutreq := func(v ssa.Value) bool {
		return derives(v, func(x ssa.Value) bool { return isResultOf(x, 0, modPath+"/"+pxPkg+".createUpstreamRequest") }, flowOpts{})
	}
	fieldStore := func(in ssa.Instruction, field string) (*ssa.Store, bool) {
		st, ok := in.(*ssa.Store)
		if !ok {
			return nil, false
		}
		fa, ok := st.Addr.(*ssa.FieldAddr)
		if !ok || fieldName(fa.X.Type(), fa.Field) != field || !isOutreq(fa.X) {
			return nil, false
		}
		return st, true
	}
	start := firstInstr(hd)
	users := 0
	allInstrs(sv, func(in ssa.Instruction) {
		if !loop[in.Block()] {
			return
		}
		c := callOf(in)
		if c == nil {
			// closures capturing outreq and invoked in the loop are handled through their MakeClosure
			mc, ok := in.(*ssa.MakeClosure)
			if !ok {
				return
			}
			uses := false
			for _, b := range mc.Bindings {
				if isOutreq(b) {
					uses = true
				}
			}
			if !uses {
				return
			}
		} else {
			uses := false
			for _, a := range c.Args {
				if isOutreq(a) && (strings.HasSuffix(a.Type().String(), "net/http.Request") || strings.HasSuffix(a.Type().String(), "net/http.Header")) {
					uses = true
				}
			}
			if !uses {
				return
			}
			// reading accessors do not mutate
			switch calleeName(c) {
			case "(net/http.Header).Get", "builtin.len":
				return
			}
		}
		users++
		for _, fld := range []string{"URL", "Header"} {
			ok := !canReach(sv, start, in, cut{instr: func(x ssa.Instruction) bool {
				_, is := fieldStore(x, fld)
				return is && loop[x.Block()]
			}})
			r.Check(ok, "R2", sprintf("proxy.Proxy.ServeHTTP/retry-loop/%s-rederived-before:%s", fld, mutationName(in)), in.Pos(),
				"within each retry iteration outreq."+fld+" is reset from the pristine snapshot before this use (director / header rules must not accumulate across attempts)")
		}
	})
	if users < 3 {
		r.Unresolve("R2", sprintf("Proxy.ServeHTTP: only %d uses of outreq inside the retry loop recognised", users))
	}
	// the stores install fresh values
	allInstrs(sv, func(in ssa.Instruction) {
		if !loop[in.Block()] {
			return
		}
		if st, ok := fieldStore(in, "Header"); ok {
			_, isMake := st.Val.(*ssa.MakeMap)
			r.Check(isMake, "R2", "proxy.Proxy.ServeHTTP/retry-loop/header-store-is-fresh-map", st.Pos(),
				"every store to outreq.Header inside the retry loop installs a newly made map (never a map shared between attempts)", describe(st.Val))
		}
		if st, ok := fieldStore(in, "URL"); ok {
			a, isAlloc := st.Val.(*ssa.Alloc)
			fresh := isAlloc && loop[a.Block()]
			r.Check(fresh, "R2", "proxy.Proxy.ServeHTTP/retry-loop/url-store-is-fresh-copy", st.Pos(),
				"every store to outreq.URL inside the retry loop installs a URL value allocated in that iteration", describe(st.Val))
		}
	})
}

func mutationName(in ssa.Instruction) string {
	switch t := in.(type) {
	case *ssa.MapUpdate:
		return "map-update[" + describe(t.Key) + "]"
	case *ssa.MakeClosure:
		return "closure:" + shortFunc(t.Fn.(*ssa.Function))
	}
	if c := callOf(in); c != nil {
		n := shortCallee(in)
		if len(c.Args) > 1 {
			if s, ok := constString(c.Args[1]); ok {
				n += "(" + s + ")"
			}
		}
		return n
	}
	return "?"
}

func c04R3(h H) { bodyReplayRule(h, "R3") }

// bodyReplayRule: decided from the traces of Proxy.ServeHTTP (E10, proxyTraces); the loop-shape formulation
// (bodyReplayPatterns) is kept for reference and no longer registered.
func bodyReplayRule(h H, rule string) {
	r := h.r
	r.Rule(rule, "body replay along the proxy's traces (E10): every attempt on a buffered body follows a rewind; the body is buffered exactly when retries are enabled (a single backend is retried too, after its fail_timeout) (scripts with one and two backends, try_duration 0 and 100), under no further condition", 2)
	t := proxyTraces(h)
	var pos token.Pos
	if fn := h.p.Func(pxPkg, "Proxy.ServeHTTP"); fn != nil {
		pos = fn.Pos()
	}
	n := sprintf("%d scripts evaluated", t.n)
	r.Check(t.body == "" && t.other == "", rule, "proxy.Proxy.ServeHTTP/retry-loop/rewind-before-forward", pos, "each attempt starts with the buffered body rewound to its beginning", n, t.body, t.other)
	r.Check(t.buffer == "" && t.other == "", rule, "proxy.Proxy.ServeHTTP/buffering-condition", pos, "the request body is buffered for replay exactly when retries are enabled (no further condition such as a known Content-Length or the number of hosts: a single host is retried after its fail_timeout)", n, t.buffer, t.other)
}

func bodyReplayPatterns(h H, rule string) {
	r := h.r
	r.Rule(rule, "body replay: in every retry iteration the forward call is preceded by bufferedBody.rewind() unless the body is not a *bufferedBody; newBufferedBody is called under exactly the conditions {GetHostCount() > 1, GetTryDuration() != 0}", 2)
	sv := h.fn(rule, pxPkg, "Proxy.ServeHTTP")
	if sv == nil {
		return
	}
	var sel ssa.Instruction
	allInstrs(sv, func(in ssa.Instruction) {
		if c := callOf(in); c != nil && c.IsInvoke() && c.Method.Name() == "Select" {
			sel = in
		}
	})
	if sel == nil {
		return
	}
	hd, loop := loopOf(sel.Block())
	if hd == nil {
		return
	}
	// forward: closure in loop whose body calls (*ReverseProxy).ServeHTTP, or direct call
	var forwards []ssa.Instruction
	allInstrs(sv, func(in ssa.Instruction) {
		if !loop[in.Block()] {
			return
		}
		c := callOf(in)
		if c == nil {
			return
		}
		if strings.HasSuffix(calleeName(c), "proxy.ReverseProxy).ServeHTTP") {
			forwards = append(forwards, in)
			return
		}
		// a closure or helper of the package that performs the forward (the per-attempt function)
		if f := calleeFunc(c); f != nil && fnPkg(f) != nil && fnPkg(f) == fnPkg(sv) && len(f.Blocks) > 0 {
			hit := false
			for _, g := range withHelpers(f, 2) {
				allInstrs(g, func(x ssa.Instruction) {
					if cc := callOf(x); cc != nil && strings.HasSuffix(calleeName(cc), "proxy.ReverseProxy).ServeHTTP") {
						hit = true
					}
				})
			}
			if hit {
				forwards = append(forwards, in)
			}
		}
	})
	if len(forwards) == 0 {
		r.Unresolve(rule, "Proxy.ServeHTTP: forward call not found in retry loop")
	}
	notBuffered := guardEdges(sv, false, func(v ssa.Value) bool {
		ex, ok := v.(*ssa.Extract)
		if !ok || ex.Index != 1 {
			return false
		}
		ta, ok := ex.Tuple.(*ssa.TypeAssert)
		return ok && strings.HasSuffix(ta.AssertedType.String(), "proxy.bufferedBody")
	})
	isRewind := func(x ssa.Instruction) bool {
		c := callOf(x)
		return c != nil && strings.HasSuffix(calleeName(c), "proxy.bufferedBody).rewind")
	}
	notBufferedIn := func(g *ssa.Function) map[edge]bool {
		return guardEdges(g, false, func(v ssa.Value) bool {
			ex, ok := v.(*ssa.Extract)
			if !ok || ex.Index != 1 {
				return false
			}
			ta, ok := ex.Tuple.(*ssa.TypeAssert)
			return ok && strings.HasSuffix(ta.AssertedType.String(), "proxy.bufferedBody")
		})
	}
	// a helper that rewinds on all its paths unless the body is not a *bufferedBody counts as the rewind
	rewinds := func(x ssa.Instruction) bool {
		if isRewind(x) {
			return true
		}
		c := callOf(x)
		if c == nil {
			return false
		}
		f := calleeFunc(c)
		if f == nil || len(f.Blocks) == 0 || fnPkg(f) == nil || fnPkg(f) != fnPkg(sv) {
			return false
		}
		has := false
		allInstrs(f, func(y ssa.Instruction) {
			if isRewind(y) {
				has = true
			}
		})
		if !has {
			return false
		}
		for _, e := range exitsOf(f) {
			if rt, ok := e.(*ssa.Return); ok && canReach(f, nil, rt, cut{edges: notBufferedIn(f), instr: isRewind}) {
				return false
			}
		}
		return true
	}
	for _, f := range forwards {
		ok := !canReach(sv, firstInstr(hd), f, cut{edges: notBuffered, instr: rewinds})
		r.Check(ok, rule, "proxy.Proxy.ServeHTTP/retry-loop/rewind-before-forward", f.Pos(), "each attempt starts with the buffered body rewound to its beginning")
	}
	for _, c := range findCalls(sv, func(in ssa.Instruction) bool { return isCallTo(in, modPath+"/"+pxPkg+".newBufferedBody") }) {
		var extra []string
		hosts, dur := false, false
		for _, g := range guardAtoms(sv, nil, c) {
			d := describe(g.Cond)
			x, kind, cst, isCmp := intCmp(g.Cond)
			switch {
			case isCmp && isInvokeOf(x, "GetHostCount") && kind == "gt" && cst == 1 && g.Pos:
				hosts = true
			case isCmp && isInvokeOf(x, "GetTryDuration") && kind == "ne" && cst == 0 && g.Pos:
				dur = true
			case isFlagOver(g.Cond):
				// the && result φ
			case isNilMatchGuard(g):
				// upstream == nil early return
			default:
				extra = append(extra, d)
			}
		}
		r.Check(hosts && dur && len(extra) == 0, rule, "proxy.Proxy.ServeHTTP/buffering-condition", c.Pos(),
			"the request body is buffered for replay exactly when retries are enabled (no further condition such as a known Content-Length or the number of hosts: a single host is retried after its fail_timeout)", append([]string{sprintf("hosts>1:%v tryDuration!=0:%v", hosts, dur)}, extra...)...)
	}
}

func isInvokeOf(v ssa.Value, method string) bool {
	c, ok := v.(*ssa.Call)
	if !ok {
		if cv, ok2 := v.(*ssa.Convert); ok2 {
			return isInvokeOf(cv.X, method)
		}
		return false
	}
	return c.Call.IsInvoke() && c.Call.Method.Name() == method
}

func isFlagOver(v ssa.Value) bool {
	_, ok := v.(*ssa.Phi)
	return ok
}

func isNilMatchGuard(g guardInfo) bool {
	_, _, ok := nilCmp(g.Cond)
	return ok
}

func c04R4(h H) {
	r := h.r
	r.Rule("R4", "response relay: ReverseProxy.ServeHTTP passes the backend's StatusCode unmodified to WriteHeader; every store of the \"Trailer\" announcement into the response header happens before WriteHeader; copyResponse precedes shallowCopyTrailers; on every path from WriteHeader to a trailer copy that may force unannounced trailers, the response is flushed", 4)
	fn0 := h.fn("R4", pxPkg, "(*ReverseProxy).ServeHTTP")
	if fn0 == nil {
		return
	}
	// the relay may have been moved into a helper method: analyse the function that commits the header
	fn := fn0
	var wh []ssa.Instruction
	for _, g := range withHelpers(fn0, 2) {
		var found []ssa.Instruction
		allInstrs(g, func(in ssa.Instruction) {
			if c := callOf(in); c != nil && c.IsInvoke() && c.Method.Name() == "WriteHeader" && strings.HasSuffix(c.Value.Type().String(), "net/http.ResponseWriter") {
				found = append(found, in)
			}
		})
		if len(found) > 0 && len(wh) == 0 {
			fn, wh = g, found
		}
	}
	if len(wh) == 0 {
		r.Unresolve("R4", "ReverseProxy.ServeHTTP: no ResponseWriter.WriteHeader invoke")
		return
	}
	fromRoundTrip := func(v ssa.Value) bool {
		return derives(v, func(x ssa.Value) bool {
			if isResultOf(x, 0, "iface:(net/http.RoundTripper).RoundTrip") {
				return true
			}
			// a parameter of the helper: what its single caller passes
			if p, isP := x.(*ssa.Parameter); isP {
				if a := callerArg(h.p, p); a != nil {
					return derives(a, func(y ssa.Value) bool { return isResultOf(y, 0, "iface:(net/http.RoundTripper).RoundTrip") }, flowOpts{})
				}
			}
			return false
		}, flowOpts{})
	}
	for _, w := range wh {
		arg := callOf(w).Args[0]
		p, _ := fieldPath(arg)
		_, isLoad := arg.(*ssa.UnOp)
		okStatus := isLoad && p == "StatusCode" && fromRoundTrip(arg)
		r.Check(okStatus, "R4", "proxy.(*ReverseProxy).ServeHTTP/status-passthrough", w.Pos(), "the status written to the client is the backend response's StatusCode field, unmodified", describe(arg))
	}
	n := 0
	allInstrs(fn, func(in ssa.Instruction) {
		mu, ok := in.(*ssa.MapUpdate)
		if !ok {
			return
		}
		if s, ok := constString(mu.Key); !ok || s != "Trailer" {
			return
		}
		n++
		after := false
		for _, w := range wh {
			if canReach(fn, w, in, cut{}) {
				after = true
			}
		}
		r.Check(!after, "R4", "proxy.(*ReverseProxy).ServeHTTP/trailer-announcement-before-WriteHeader", in.Pos(), "announced trailer keys are put into the header before it is committed (net/http drops trailers that were not announced)")
	})
	if n == 0 {
		r.Unresolve("R4", "ReverseProxy.ServeHTTP: no store of the Trailer announcement found")
	}
	var copyResp, copyTr []ssa.Instruction
	allInstrs(fn, func(in ssa.Instruction) {
		c := callOf(in)
		if c == nil {
			return
		}
		switch {
		case strings.HasSuffix(calleeName(c), "proxy.ReverseProxy).copyResponse"), relaysBody(c):
			copyResp = append(copyResp, in)
		case strings.HasSuffix(calleeName(c), "proxy.shallowCopyTrailers"):
			copyTr = append(copyTr, in)
		}
	})
	for _, t := range copyTr {
		ok := len(copyResp) > 0 && mustPass(fn, t, func(in ssa.Instruction) bool {
			for _, c := range copyResp {
				if in == c {
					return true
				}
			}
			return false
		})
		okWH := mustPass(fn, t, func(in ssa.Instruction) bool {
			for _, w := range wh {
				if in == w {
					return true
				}
			}
			return false
		})
		r.Check(ok && okWH, "R4", "proxy.(*ReverseProxy).ServeHTTP/body-before-trailers", t.Pos(), "trailers are copied only after the header was written and the body was relayed")
	}
	if len(copyTr) == 0 {
		r.Unresolve("R4", "ReverseProxy.ServeHTTP: shallowCopyTrailers call not found")
	}
	// unannounced trailers are forced into the header after the body: unless the response was flushed since the
	// header was written, net/http may still be holding a short body back, will frame it with a Content-Length and
	// drop the trailers.  On every path from WriteHeader to the trailer copy on which the "force" argument can be
	// true, a Flush has happened.
	isFlush := func(in ssa.Instruction) bool {
		c := callOf(in)
		return c != nil && c.IsInvoke() && c.Method.Name() == "Flush"
	}
	for _, t := range copyTr {
		args := callOf(t).Args
		if len(args) < 3 {
			continue
		}
		force := args[len(args)-1]
		if k, ok := force.(*ssa.Const); ok && k.Value != nil && k.Value.String() == "false" {
			continue
		}
		falseEdges := map[edge]bool{}
		for _, b := range fn.Blocks {
			if len(b.Instrs) == 0 {
				continue
			}
			iff, ok := b.Instrs[len(b.Instrs)-1].(*ssa.If)
			if !ok {
				continue
			}
			c, neg := stripNot(iff.Cond)
			if ex, ok := c.(*ssa.Extract); ok && ex.Index == 1 {
				// `fl, ok := rw.(http.Flusher)`: a writer that cannot flush has nothing held back to flush
				if ta, ok := ex.Tuple.(*ssa.TypeAssert); ok && ta.CommaOk {
					if it, ok := underlying(ta.AssertedType).(*types.Interface); ok {
						for i := 0; i < it.NumMethods(); i++ {
							if it.Method(i).Name() == "Flush" {
								if neg {
									falseEdges[edge{b, 0}] = true
								} else {
									falseEdges[edge{b, 1}] = true
								}
							}
						}
					}
				}
				continue
			}
			if !sameValue(c, force) {
				continue
			}
			if neg {
				falseEdges[edge{b, 0}] = true // !force took the true edge: force is false there
			} else {
				falseEdges[edge{b, 1}] = true
			}
		}
		ok := true
		for _, w := range wh {
			if canReach(fn, w, t, cut{instr: isFlush, edges: falseEdges}) {
				ok = false
			}
		}
		r.Check(ok, "R4", "proxy.(*ReverseProxy).ServeHTTP/flush-before-forced-trailers", t.Pos(), "when trailers the backend did not announce are forced into the response, the response has been flushed since its header was written (or net/http frames a short body with Content-Length and drops them)")
	}
}

// callerArg: the argument bound to parameter p when its function has exactly one static call site in the module.
func callerArg(p *Program, par *ssa.Parameter) ssa.Value {
	fn := par.Parent()
	if fn == nil {
		return nil
	}
	idx := -1
	for k, x := range fn.Params {
		if x == par {
			idx = k
		}
	}
	sites := callSitesOf(p, fn)
	if len(sites) != 1 || idx < 0 {
		return nil
	}
	c := callOf(sites[0])
	if idx >= len(c.Args) {
		return nil
	}
	return c.Args[idx]
}

// relaysBody: the call runs a function (a helper of the package, or an immediately-invoked closure) that copies a
// stream — it calls io.Copy / io.CopyBuffer or the package's pooled copy on every path to its return.
func relaysBody(c *ssa.CallCommon) bool {
	f := c.StaticCallee()
	if f == nil || len(f.Blocks) == 0 || fnPkg(f) == nil || !isModPkg(fnPkg(f).Path()) {
		return false
	}
	isCopy := func(in ssa.Instruction) bool {
		cc := callOf(in)
		if cc == nil {
			return false
		}
		n := calleeName(cc)
		return n == "io.Copy" || n == "io.CopyBuffer" || strings.HasSuffix(n, "proxy.pooledIoCopy")
	}
	n := 0
	for _, rt := range realReturns(f) {
		n++
		if !mustPass(f, rt, isCopy) {
			return false
		}
	}
	return n > 0
}
